"""Self-contained PRNG: xoshiro256** seeded through SHA-256 of (seed, label).

One integer (VERIF_SEED) decides everything.  Every consumer derives its own
labelled sub-stream, so adding a draw in one place never shifts another.
Python's `random` module is deliberately not used (its derived methods have
changed between versions).
"""
import hashlib

MASK = (1 << 64) - 1
DEFAULT_SEED = 20260921


def _rotl(x, k):
    return ((x << k) | (x >> (64 - k))) & MASK


class Rng:
    __slots__ = ("s", "label")

    def __init__(self, seed, label=""):
        self.label = "%s/%s" % (seed, label)
        h = hashlib.sha256(self.label.encode()).digest()
        self.s = [int.from_bytes(h[i * 8:(i + 1) * 8], "little") or 1 for i in range(4)]

    def sub(self, label):
        """Independent child stream; does not advance this stream."""
        return Rng(self.label, label)

    def u64(self):
        s = self.s
        result = (_rotl((s[1] * 5) & MASK, 7) * 9) & MASK
        t = (s[1] << 17) & MASK
        s[2] ^= s[0]
        s[3] ^= s[1]
        s[1] ^= s[2]
        s[0] ^= s[3]
        s[2] ^= t
        s[3] = _rotl(s[3], 45)
        return result

    def below(self, n):
        """Uniform integer in [0, n)."""
        if n <= 1:
            return 0
        # rejection sampling for exact uniformity
        limit = (1 << 64) - ((1 << 64) % n)
        while True:
            v = self.u64()
            if v < limit:
                return v % n

    def range(self, lo, hi):
        """Uniform integer in [lo, hi]."""
        return lo + self.below(hi - lo + 1)

    def chance(self, num, den):
        return self.below(den) < num

    def choice(self, seq):
        return seq[self.below(len(seq))]

    def shuffle(self, lst):
        for i in range(len(lst) - 1, 0, -1):
            j = self.below(i + 1)
            lst[i], lst[j] = lst[j], lst[i]
        return lst

    def sample(self, seq, k):
        lst = list(seq)
        self.shuffle(lst)
        return lst[:k]

    def weighted(self, pairs):
        """pairs: list of (weight, value)."""
        total = sum(w for w, _ in pairs)
        r = self.below(total)
        for w, v in pairs:
            if r < w:
                return v
            r -= w
        return pairs[-1][1]

    def bytes(self, n):
        out = bytearray()
        while len(out) < n:
            out += self.u64().to_bytes(8, "little")
        return bytes(out[:n])
