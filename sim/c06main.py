"""C06 tier driver."""
from . import c06, common, proc, runner
from .build import HarnessError
from .common import log


def merge(dst, src):
    for k, v in src.items():
        dst[k] = dst.get(k, 0) + v


def main(seed, tier):
    t = common.Timer()
    items = c06.make_items(seed, tier)
    log("C06: %d workload items" % len(items))
    # determinism proof first: nothing is believed from a simulator that does not replay
    ndet, bad = c06.determinism_probe(items, seed, 4 if tier == "quick" else 24)
    if bad:
        raise HarnessError("determinism self-check failed: %r" % bad[:3])
    agg = {"runs": 0, "steps": 0, "plans": 0, "inside": 0, "after": 0, "dups": 0, "forkserver_runs": 0, "forkserver_discrepancy": 0}
    fired, configured, probes, ref_exits, kinds = {}, {}, {}, {}, {}
    violations, samples = [], []
    distinct = set()
    kept = {}
    slow_ids = set()
    for out in common.pmap(c06.run_item, [(it, seed, tier) for it in items]):
        for k in ("runs", "steps", "plans", "inside", "after"):
            agg[k] += out[k]
        agg["dups"] += out.get("dups", 0)
        agg["slow"] = agg.get("slow", 0) + out.get("slow_reference", 0)
        agg["forkserver_runs"] += out.get("forkserver_runs", 0)
        agg["forkserver_discrepancy"] += out.get("forkserver_discrepancy", 0)
        agg["timeouts_not_confirmed"] = agg.get("timeouts_not_confirmed", 0) + out.get("timeouts_not_confirmed", 0)
        merge(fired, out["fired"])
        merge(configured, out["configured"])
        merge(probes, out["probes"])
        ref_exits[out["ref_exit"]] = ref_exits.get(out["ref_exit"], 0) + 1
        kinds[out["kind"].split(":")[0]] = kinds.get(out["kind"].split(":")[0], 0) + 1
        violations.extend(out["violations"])
        kept[out["id"]] = (out["runs"], out["plans"], sorted(out["fired"].items()), sorted(v["key"] for v in out["violations"]))
        if out.get("slow_reference") or out.get("forkserver_lost") or out.get("timeouts_not_confirmed"):
            slow_ids.add(out["id"])
        if out["cases"] and len(samples) < 8 and out["id"] % 7 == 0:
            samples.extend(out["cases"])
        # distinct non-trivial case = (item, fault kind that fired at a distinct position); counted per item from fired keys
        for k, n in out["fired"].items():
            distinct.add((out["id"], k))
    # worker-count independence (thorough): a few items re-run serially in this process must give the same fault counters
    xcheck = 0
    if tier == "thorough":
        from .prng import Rng
        pick = Rng(seed, "c06/xcheck").sample([it for it in items if it["fault_mode"] == "enumerate" and not it["kind"].startswith("example:mygit")], 6)
        for it in pick:
            again = c06.run_item((it, seed, tier))
            a = (again["runs"], again["plans"], sorted(again["fired"].items()), sorted(v["key"] for v in again["violations"]))
            b = kept.get(it["id"])
            if again.get("slow_reference") or it["id"] in slow_ids or again.get("forkserver_lost") or again.get("timeouts_not_confirmed"):
                continue      # the wall-clock bail-outs (slow reference -> sampled plans, lost fork server) legitimately change the plan list
            if any(k.startswith(("hang", "too-many-steps")) for k in a[3] + (b[3] if b else [])):
                continue      # a run cut off by the wall clock under load (triage re-runs such reports before believing them)
            if b is not None and a != b:
                raise HarnessError("item %d gives different results when re-run serially: the simulation is not deterministic" % it["id"])
            xcheck += 1
    rk_runs, rk_viol = c06.real_kernel_crosscheck()
    for v in rk_viol:
        v.update({"mode": "real-kernel", "item": None, "plan": []})
    violations.extend(rk_viol)
    new, known = runner.triage("C06", seed, violations, c06.minimise_any, lambda p: c06.replay(p)[0])
    stuck = [p for p in ("multi_chunk_script", "single_chunk_script", "warning_then_script", "dest_preexisting", "rejected_grammar",
                         "stdin_input", "stdout_dest", "final_flush_fault_hit") if not probes.get(p)]
    coverage = {
        "evaluations": agg["runs"],
        "distinct_nontrivial": len(distinct),
        "rule": "one evaluation = one execution of the real complgen binary under procsim.so with an explicit fault plan; "
                "workload items are seeded (bundled examples, generated valid/big grammars, one planted mistake per Error variant, "
                "warning triggers, token-level mutations, token soups, fixed stress corpus) x shell x input{file,stdin} x "
                "dest{new,existing+sentinel,stdout pipe,stdout file} x dot{none,regex,dfa,both}; per item EVERY position of the "
                "fault-free syscall trace on input/dest/stderr x every fault kind is run (single-fault enumeration; dot-file positions "
                "sampled), plus sampled double faults.  distinct_nontrivial counts distinct (workload item, role/call/fault-kind) "
                "pairs whose fault actually FIRED according to the shim's event log.",
        "samples": samples[:8] or [{"note": "no faulted case sampled"}],
        "workload_items": len(items),
        "workload_by_kind": kinds,
        "reference_outcomes": ref_exits,
        "fault_plans": agg["plans"],
        "faults_configured": dict(sorted(configured.items())),
        "faults_fired": dict(sorted(fired.items())),
        "fired_inside_operation": agg["inside"],
        "fired_after_last_useful_call": agg["after"],
        "logical_steps_simulated": agg["steps"],
        "probes": probes,
        "probes_stuck_at_zero": stuck,
        "real_kernel_crosscheck_runs": rk_runs,
        "determinism_selfcheck": {"items": ndet, "executions_each": 2, "mismatches": 0, "items_rerun_serially_vs_pool": xcheck},
        "runs_per_hour": int(agg["runs"] / max(t.s(), 0.001) * 3600),
        "runs_via_forkserver": agg["forkserver_runs"],
        "runs_via_fresh_exec": agg["runs"] - agg["forkserver_runs"],
        "forkserver_vs_exec_discrepancies": agg["forkserver_discrepancy"],
        "timeouts_under_forkserver_not_confirmed_by_fresh_exec": agg.get("timeouts_not_confirmed", 0),
        "duplicate_violation_reports_suppressed": agg["dups"],
        "items_with_slow_reference_run_sampled_instead_of_enumerated": agg.get("slow", 0),
        "known_findings_matched": known,
        "real_code": "the complgen binary built from /repo's working tree (main.rs, whole library, std BufWriter/write_all/EINTR loops, clap, anyhow)",
        "stubbed": "the kernel side of open/read/write/statx/lseek on the input, destination, dot files and stderr (procsim.so); nothing of complgen",
        "aslr_disabled": proc.aslr_disable_works(),
    }
    common.write_evidence("C06", tier, seed, "fault_enumeration", coverage, t.s(), new, [
        "faults are injected at the libc call boundary; a raw syscall bypassing libc would be invisible (audited at setup against strace)",
        "allocation failure, close() errors, lost/lying writes and signals are deliberately not injected (DESIGN.md 2.1)",
        "the input quantifier (all byte strings) is sampled by the seeded workload; the fault dimension is enumerated per sampled input",
    ])
    log("C06: runs=%d plans=%d fired-kinds=%d violations(new)=%d known=%d wall=%.1fs" % (agg["runs"], agg["plans"], len(fired), new, known, t.s()))
    if agg["forkserver_discrepancy"]:
        raise HarnessError("%d run(s) violated under the fork server but not under a fresh exec: the fork server misrepresents the binary" % agg["forkserver_discrepancy"])
    if stuck and tier == "thorough":
        log("probes stuck at zero: %s" % stuck)
    return 1 if new else 0
