"""C10 thorough tier: the history harness under Miri (DESIGN.md 2.3).

Under Miri with isolation ON every ambient source is derived from Miri's seed or refused: getrandom bytes, every
allocation address (so ordering/hashing by address shows), thread interleaving; the wall clock, the host environment
and the file system are not reachable at all.  The harness therefore runs in `--inline` mode (grammars arrive as
arguments, digests leave on stdout).  Each Miri seed executes the same operation sequence; all seeds must print the
same digests, and those must equal the digests of the natively built harness (same source, same library).
"""
import os
import re
import subprocess

from . import build
from .common import log
from .prng import Rng

MIRI_DIR = os.path.join(build.VERIF, "harness-miri")
MIRI_TARGET = os.path.join(build.TARGET, "harness-miri")

TINY = [
    "cmd (foo | bar) --opt=(a | b) {{{ echo x }}};\n",
    "tool <X> [--v]... || --help; <X> = one | two --k=(p | q);\n",
    "t (--a=(x | y) | --b=(x | y) | --c=(u | v | w)) {{{ echo 1 }}} --d={{{ echo 2 }}};\n",
    "g sub1 [-a | -b]... <PATH> | sub2 (x || y || z) | sub3 --long=<DIRECTORY>;\n",
]


def miri_available():
    r = subprocess.run(["cargo", "+nightly", "miri", "--version"], capture_output=True, text=True, env=build._env())
    return r.returncode == 0


def native_digests(ops, threads=False):
    args = ["--inline"] + (["--threads"] if threads else [])
    for sh, text in ops:
        args += [sh, text]
    r = subprocess.run([build.HARNESS] + args, capture_output=True, text=True, env={"LC_ALL": "C"})
    return sorted(l for l in r.stdout.splitlines() if l.startswith("op"))


def miri_run(ops, seeds, threads=False, timeout=3600):
    args = ["--inline"] + (["--threads"] if threads else [])
    for sh, text in ops:
        args += [sh, text]
    env = build._env()
    env["MIRIFLAGS"] = "-Zmiri-disable-stacked-borrows -Zmiri-many-seeds=%d..%d" % (seeds[0], seeds[1])
    env["CARGO_TARGET_DIR"] = MIRI_TARGET
    env.pop("RUST_BACKTRACE", None)
    r = subprocess.run(["cargo", "+nightly", "miri", "run", "--offline", "--quiet", "--manifest-path", os.path.join(MIRI_DIR, "Cargo.toml"), "--"] + args,
                       capture_output=True, text=True, env=env, timeout=timeout)
    lines = [l for l in r.stdout.splitlines() if l.startswith("op")]
    return r.returncode, lines, r.stderr[-3000:]


def run(seed, ok_pool):
    """Returns evidence dict with 'violations'."""
    out = {"available": False, "seeds": 0, "scenarios": 0, "compiles_under_miri": 0, "violations": [], "note": ""}
    if not miri_available():
        out["note"] = "cargo +nightly miri not available: Miri tier skipped"
        return out
    out["available"] = True
    rng = Rng(seed, "c10/miri")
    nseeds = int(os.environ.get("VERIF_MIRI_SEEDS", "8"))
    lo = rng.below(1000)
    scenarios = []
    # 1. history: same grammar twice with another grammar in between (sequential)
    a, b = rng.sample(TINY, 2)
    sh1, sh2 = rng.choice(["bash", "fish", "zsh", "pwsh"]), rng.choice(["bash", "fish", "zsh", "pwsh"])
    scenarios.append(("history", [(sh1, a), (sh2, b), (sh1, a)], False))
    # 2. two compiles on two threads (Miri's seeded scheduler interleaves the ustr interner)
    c, d = rng.sample(TINY, 2)
    scenarios.append(("threads", [(rng.choice(["bash", "zsh"]), c), (rng.choice(["fish", "pwsh"]), d)], True))
    for name, ops, threads in scenarios:
        native = native_digests(ops, threads)
        rc, lines, err = miri_run(ops, (lo, lo + nseeds), threads)
        out["scenarios"] += 1
        out["seeds"] = nseeds
        out["compiles_under_miri"] += nseeds * len(ops)
        per_op = {}
        for l in lines:
            per_op.setdefault(l.split()[0], set()).add(l)
        bad = [op for op, s in per_op.items() if len(s) != 1]
        missing = len(lines) != nseeds * len(ops)
        mismatch_native = sorted(set(lines)) != native
        if rc != 0 and not lines:
            out["note"] += "miri run failed for scenario %s (rc=%s): %s; " % (name, rc, err[-400:])
            continue
        if bad or mismatch_native or missing:
            out["violations"].append({"class": "output-depends-on-miri-seed", "key": "miri:" + name, "mode": "miri", "scenario": name, "ops": ops,
                                      "threads": threads, "seed_range": [lo, lo + nseeds], "ops_with_several_digests": bad,
                                      "native_digests": native, "miri_digests": sorted(set(lines)), "lines_seen": len(lines)})
        log("miri scenario %s: %d seeds x %d compiles, distinct digest lines=%d (native %d)" % (name, nseeds, len(ops), len(set(lines)), len(native)))
    return out


def reproduce(v):
    ops = [tuple(o) for o in v["ops"]]
    native = native_digests(ops, v["threads"])
    rc, lines, err = miri_run(ops, tuple(v["seed_range"]), v["threads"])
    per_op = {}
    for l in lines:
        per_op.setdefault(l.split()[0], set()).add(l)
    bad = [op for op, s in per_op.items() if len(s) != 1]
    if bad or sorted(set(lines)) != native:
        return "output-depends-on-miri-seed", {"ops_with_several_digests": bad, "native": native, "miri": sorted(set(lines))}
    return None, {}
