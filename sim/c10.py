"""C10 -- output is a pure function of the input: byte-identical across runs and processes.

Engines (DESIGN.md 2.1-2.3, 3/C10):
  directed   the real binary under procsim with every ambient source owned by the seed
             (getrandom bytes, clock, pid/tid, hostname, whole environment block, stack limit -> mmap_base,
             heap pad; ASLR off), compared with the canonical-seam reference run;
  discovery  which ambient sources the binary actually consults (from the shim's event log);
  history    the library driven through a seed-chosen *sequence* of compiles inside one process
             (histharness), each operation compared with its single-operation fresh-process reference;
  miri       (thorough) the same harness under Miri, whose seed decides every address and random byte.
"""
import hashlib
import json
import os
import shutil
import subprocess
import tempfile

from . import build, common, gram, proc, runner
from .build import HarnessError
from .common import log
from .prng import Rng

OUT = "out.script"
DFA = "d.dot"
REGEX = "r.dot"
INPUT = "in.usage"

ENV_NAMES = ["HOME", "USER", "LOGNAME", "HOSTNAME", "LANG", "LC_ALL", "LC_COLLATE", "LC_CTYPE", "LC_MESSAGES", "LANGUAGE", "TZ", "TERM", "COLUMNS", "TMPDIR", "PWD", "SHELL",
             "SOURCE_DATE_EPOCH", "NO_COLOR", "CLICOLOR_FORCE", "RUST_BACKTRACE", "RUST_LOG", "RUST_MIN_STACK", "PATH", "XDG_CONFIG_HOME",
             "COMPLGEN_VERSION", "CARGO_PKG_VERSION", "RANDOM", "SEED", "HASH_SEED", "MALLOC_ARENA_MAX",
             # glibc allocator tunables legitimately change where allocations land (mmap vs brk, padding): layout seams too
             "MALLOC_MMAP_THRESHOLD_", "MALLOC_TOP_PAD_", "MALLOC_PERTURB_", "MALLOC_MMAP_THRESHOLD_", "MALLOC_TRIM_THRESHOLD_"]
ENV_VALUES = ["", "0", "1", "C", "en_US.UTF-8", "tr_TR.UTF-8", "C.utf8", "POSIX", "de_DE.ISO-8859-1", "UTC", "Asia/Tokyo", "xterm-256color", "dumb", "/tmp", "/root", "root", "nobody",
              "1700000000", "always", "full", "debug", "/usr/bin:/bin", "x" * 300, "y" * 3000, "16384", "4096", "86400", "165"]


def setup_build():
    return build_harness()


def build_harness():
    """(Re)build the history harness; its lockfile follows /repo/Cargo.lock."""
    lock_src = os.path.join(build.REPO, "Cargo.lock")
    lock_dst = os.path.join(build.HARNESS_DIR, "Cargo.lock")
    sha_file = os.path.join(build.HARNESS_TARGET, "lock-src.sha")
    with open(lock_src, "rb") as f:
        sha = hashlib.sha256(f.read()).hexdigest()
    old = None
    if os.path.exists(sha_file):
        with open(sha_file) as f:
            old = f.read().strip()
    if old != sha or not os.path.exists(lock_dst):
        shutil.copyfile(lock_src, lock_dst)
    r = subprocess.run(["cargo", "build", "--offline", "--quiet", "--manifest-path", os.path.join(build.HARNESS_DIR, "Cargo.toml"),
                        "--target-dir", build.HARNESS_TARGET], capture_output=True, text=True, env=build._env())
    if r.returncode != 0 or not os.path.exists(build.HARNESS):
        raise HarnessError("cargo build of history harness failed:\n%s" % r.stderr[-4000:])
    os.makedirs(build.HARNESS_TARGET, exist_ok=True)
    with open(sha_file, "w") as f:
        f.write(sha)
    return build.HARNESS


# ------------------------------------------------------------------ workload

def make_grammars(seed, tier):
    rng = Rng(seed, "c10/grammars")
    out = []
    for name in ("hello.usage", "mygrep.usage", "mygit.usage"):
        with open(os.path.join(build.REPO, "examples", name), "rb") as f:
            out.append({"name": "example:" + name, "text": proc.enc(f.read())})
    n_big = 10 if tier == "quick" else 120
    n_gen = 10 if tier == "quick" else 180
    for i in range(n_big):
        out.append({"name": "big/%d" % i, "text": gram.gen_big_grammar(rng.sub("big/%d" % i))})
    for i in range(n_gen):
        r = rng.sub("gen/%d" % i)
        out.append({"name": "gen/%d" % i, "text": gram.gen_grammar(r, r.choice([15, 25, 40, 60]))})
    # hundreds of within-word automata of one shape (and a few of another): thresholds on their number, parallel table
    # construction, grouping of same-shaped automata
    n = 300 if tier == "quick" else 420
    many = "wide " + " | ".join("--o%d=(a | b)" % i for i in range(n)) + " | " + " | ".join("--p%d=(x | y | z)" % i for i in range(12)) + ";\n"
    out.append({"name": "many-subwords/%d" % n, "text": many})
    # non-ASCII descriptions (the only non-ASCII text the grammar syntax admits)
    out.append({"name": "unicode-descriptions", "text": "uni (gross \"gro\xc3\x9f\" | nihon \"\xe6\x97\xa5\xe6\x9c\xac\xe8\xaa\x9e\" | --k=(a \"\xc3\xa9\" | b)) <PATH>;\n"})
    # within-word expressions made of the same pieces in opposite orders (`<A>,<B>` / `<B>,<A>`), several pairs: automata that are
    # equal as SETS of inputs but not as automata.  Interning them through a randomly seeded hash container is safe only if
    # equality is exact; the rate at which a sloppy equality bites is ~1 % of processes, hence many randomness-only vectors.
    out.append({"name": "mirrored-words/a", "rand_only": 150 if tier == "quick" else 1500, "text":
                "mw get {{{ echo a1 }}},{{{ echo b1 }}} | put {{{ echo b1 }}},{{{ echo a1 }}} | x {{{ echo a1 }}}:{{{ echo c1 }}} | y {{{ echo c1 }}}:{{{ echo a1 }}};\n"})
    out.append({"name": "mirrored-words/b", "rand_only": 150 if tier == "quick" else 1500, "text":
                "mv (remove <F>,<H> | init <H>,<F> | cp <F>=<H> | mv <H>=<F> | ln <F>:<F>) [--v=(a | b) | --w=(b | a)]...;\n<F> = {{{ echo f }}};\n<H> = {{{ echo h }}};\n<H@fish> = {{{ echo hf }}};\n"})
    for i, g in enumerate(out):
        g["id"] = i
    return out


def seam_vector(rng, canonical=False):
    """One vector of ambient values.  Canonical = zero random bytes, epoch 0, empty environment, no heap pad."""
    if canonical:
        return {"rand": 0, "time": 0, "timestep": 1, "pid": 4242, "host": "canonical", "heappad": 0, "heapfrag": 0, "stack_kb": 8192, "env": {},
                "paths": "plain", "argv0": "", "tty": "", "umask": 0o22, "cpus": 0, "predest": "none"}
    env = {}
    for _ in range(rng.range(0, 12)):
        name = rng.choice(ENV_NAMES)
        # allocator tunables get sane numeric values (a threshold of 0/1 would turn every allocation into an mmap)
        env[name] = rng.choice(["4096", "16384", "65536", "165"]) if name.startswith("MALLOC_") else rng.choice(ENV_VALUES)
    for i in range(rng.range(0, 6)):
        env["V%d_%d" % (i, rng.below(1000))] = "z" * rng.below(rng.choice([8, 64, 1024, 20000]))
    return {
        "rand": rng.u64() | 1, "time": rng.choice([0, 1, 86400 * 365, 1700000000 + rng.below(10 ** 8), 2 ** 31 + rng.below(10 ** 6)]),
        "timestep": rng.choice([1, 1, 1000, 10 ** 6, 10 ** 9, 5 * 10 ** 9, 3600 * 10 ** 9]),
        "pid": rng.range(2, 4000000), "host": "h%d" % rng.below(10 ** 6),
        "heappad": rng.choice([0, 16, 24, 4096, 100000, rng.below(130000), 1 << 20, rng.below(1 << 24)]),
        "heapfrag": rng.choice([0, rng.u64() | 1, rng.u64() | 1]),
        "stack_kb": rng.choice([8192, 8192, 16384, 262144, 524288, 1048576]),
        "env": env,
        # how the same grammar / destination are NAMED on the command line, what the program is called, whether its
        # standard streams claim to be terminals, umask, visible CPU count: none of them is part of (grammar, shell)
        "paths": rng.choice(["plain", "plain", "dotslash", "subdir", "absolute", "stdin", "longnames"]),
        "argv0": rng.choice(["", "", "cg", "complgen-0.11.0", "a b"]),
        "tty": rng.choice(["", "", "2", "12", "012"]),
        "umask": rng.choice([0o22, 0o22, 0o77, 0o0, 0o27]),
        "cpus": rng.choice([0, 0, 1, 2, 5]),
        # what the destination paths held BEFORE the run is not part of (grammar, shell) either
        "predest": rng.choice(["none", "none", "none", "short", "long", "long"]),
    }


def case_for(text, shell, vec, outputs=("script", "dfa", "regex")):
    style = vec.get("paths", "plain")
    names = {"plain": (INPUT, OUT, DFA, REGEX), "dotslash": ("./" + INPUT, "./" + OUT, "./" + DFA, "./" + REGEX),
             "subdir": ("sub/dir/g.usage", "o/" + OUT, "o/" + DFA, "o/" + REGEX), "stdin": ("-", OUT, DFA, REGEX),
             "longnames": ("my grammar (final).v2.usage", "completion-script-for-bash.sh", "graph.dfa.dot", "graph.regex.dot"),
             "absolute": (INPUT, OUT, DFA, REGEX)}[style]
    inp, out, dfa, regex = names
    argv = ["--" + shell, out]
    roles = {"input": inp, "dest": out}
    if "regex" in outputs:
        argv += ["--regex", regex]
        roles["dotregex"] = regex
    if "dfa" in outputs:
        argv += ["--dfa", dfa]
        roles["dotdfa"] = dfa
    argv.append(inp)
    plan = ["rand %d" % vec["rand"], "time %d" % vec["time"], "timestep %d" % vec.get("timestep", 1), "pid %d" % vec["pid"], "host %s" % vec["host"], "heappad %d" % vec["heappad"], "heapfrag %d" % vec.get("heapfrag", 0)]
    for ch in vec.get("tty", ""):
        plan.append("tty %s 1" % ch)
    case = {"binary": "complgen", "argv": argv, "files": ({} if inp == "-" else {inp.lstrip("./") if inp.startswith("./") else inp: text}),
            "stdin": text if inp == "-" else None, "stdout": "pipe", "roles": roles, "plan": plan,
            "env": dict(vec["env"]), "stack_kb": vec["stack_kb"], "watch": [out, dfa, regex], "outputs_named": [out, dfa, regex],
            "argv0": vec.get("argv0") or None, "umask": vec.get("umask"), "cpus": vec.get("cpus") or None,
            "mkdirs": ["o"] if style == "subdir" else []}
    if style == "absolute":
        case["absolute"] = True
    pre = vec.get("predest", "none")
    if pre != "none":
        stale = "# stale line left over from a previous, longer output\n" * (3 if pre == "short" else 90000)
        for name in (out, dfa, regex):
            case["files"][name.lstrip("./") if name.startswith("./") else name] = stale
    return case


def outputs_of(res, case=None):
    out, dfa, regex = (case or {}).get("outputs_named") or (OUT, DFA, REGEX)
    return {"exit": res["exit"], "script": res["files_after"].get(out), "dfa": res["files_after"].get(dfa), "regex": res["files_after"].get(regex)}


def digest(s):
    return None if s is None else hashlib.sha256(s.encode("latin-1")).hexdigest()[:16]


def ambient_calls(events):
    """Which ambient sources were consulted (discovery)."""
    c = {}
    for ev in events:
        call = ev["call"]
        if call in ("getrandom", "getentropy", "clock_gettime", "gettimeofday", "time", "getpid", "getppid", "gettid", "gethostname", "uname"):
            c[call] = c.get(call, 0) + 1
        elif call == "getenv":
            k = "getenv:" + ev.get("name", "?")
            c[k] = c.get(k, 0) + 1
        elif call == "open" and ev.get("role") in ("other", "otherw"):
            k = "open:" + ev.get("path", "?")
            c[k] = c.get(k, 0) + 1
    return c


def run_vec(text, shell, vec, timeout=60):
    case = case_for(text, shell, vec)
    res = proc.run_case(case, timeout=timeout)
    return res, outputs_of(res, case)


def diff_outputs(ref, got):
    return [k for k in ("exit", "script", "dfa", "regex") if ref[k] != got[k]]


# ------------------------------------------------------------------ directed pass (fresh processes)

def run_directed(args):
    g, shell, seed, nseeds = args
    rng = Rng(seed, "c10/directed/%d/%s" % (g["id"], shell))
    ref_res, ref = run_vec(g["text"], shell, seam_vector(None, canonical=True))
    out = {"gid": g["id"], "name": g["name"], "shell": shell, "runs": 1, "ref_exit": ref["exit"], "violations": [],
           "ambient": ambient_calls(ref_res["events"]), "vectors": 0, "script_len": len(ref["script"] or ""),
           "states": (ref["dfa"] or "").count("->"), "sample": None}
    if ref["exit"] != 0 or ref_res["timeout"]:
        out["timeouts"] = int(bool(ref_res["timeout"]))
        return out
    looked_up = sorted(a[len("getenv:"):] for a in out["ambient"] if a.startswith("getenv:"))
    for k in range(nseeds):
        vr = rng.sub("vec/%d" % k)
        vec = seam_vector(vr)
        if g.get("rand_only"):
            vec = seam_vector(None, canonical=True)
            vec["rand"] = vr.u64() | 1
        # discovery feeds the directed pass: every environment name the binary was seen to look up is given a value
        for name in looked_up:
            if vr.chance(2, 3):
                vec["env"][name] = vr.choice(ENV_VALUES)
        res, got = run_vec(g["text"], shell, vec)
        out["runs"] += 1
        if res["timeout"]:
            # cut off by the wall clock (machine load): no verdict about determinism can be drawn from a killed run
            out["timeouts"] = out.get("timeouts", 0) + 1
            continue
        out["vectors"] += 1
        for a, n in ambient_calls(res["events"]).items():
            out["ambient"][a] = out["ambient"].get(a, 0) + n
            if a.startswith("getenv:") and a[len("getenv:"):] not in looked_up:
                looked_up = sorted(looked_up + [a[len("getenv:"):]])
        d = diff_outputs(ref, got)
        if out["sample"] is None:
            out["sample"] = {"grammar": g["name"], "shell": shell, "vector": {k2: (v if k2 != "env" else {n: len(x) for n, x in v.items()}) for k2, v in vec.items()},
                             "script_sha": digest(got["script"]), "equal_to_reference": not d}
        if d:
            out["violations"].append({"class": "output-depends-on-ambient-state", "key": "directed:" + "+".join(d), "mode": "directed",
                                      "grammar": g["text"], "grammar_name": g["name"], "shell": shell, "vector": vec, "differs": d,
                                      "reference_digest": {k2: digest(ref[k2]) if k2 != "exit" else ref[k2] for k2 in ref},
                                      "observed_digest": {k2: digest(got[k2]) if k2 != "exit" else got[k2] for k2 in got}})
            break
    return out


# ------------------------------------------------------------------ history pass (one process, many compiles)

def run_harness(ops, files, vec, threads=False, timeout=120):
    """ops: list of (grammar-file, shell, prefix).  Returns {prefix: {script,dfa,regex,status}}."""
    ops_text = "".join("%s %s %s\n" % o for o in ops)
    fs = dict(files)
    fs["ops"] = ops_text
    watch = []
    for _, _, p in ops:
        watch += [p + ".script", p + ".dfa", p + ".regex", p + ".status"]
    plan = ["rand %d" % vec["rand"], "time %d" % vec["time"], "timestep %d" % vec.get("timestep", 1), "pid %d" % vec["pid"], "host %s" % vec["host"], "heappad %d" % vec["heappad"], "heapfrag %d" % vec.get("heapfrag", 0)]
    case = {"binary": "harness", "argv": ["ops"] + (["--threads"] if threads else []), "files": fs, "stdin": None, "stdout": "pipe", "roles": {},
            "plan": plan, "env": dict(vec["env"]), "stack_kb": vec["stack_kb"], "watch": watch}
    res = proc.run_case(case, timeout=timeout)
    out = {}
    for _, _, p in ops:
        out[p] = {k: res["files_after"].get(p + "." + k) for k in ("script", "dfa", "regex", "status")}
    return out, res


def run_history(args):
    hid, pool, seed = args
    """pool: list of grammar dicts (<= 6).  A history = up to 12 ops over the pool."""
    rng = Rng(seed, "c10/history/%d" % hid)
    files = {"g%d.usage" % i: g["text"] for i, g in enumerate(pool)}
    nops = rng.range(2, 12)
    ops = []
    for k in range(nops):
        i = rng.below(len(pool))
        ops.append(("g%d.usage" % i, rng.choice(gram.SHELLS), "op%d" % k))
    canonical = seam_vector(None, canonical=True)
    vec = seam_vector(rng.sub("vec")) if rng.chance(1, 2) else canonical
    got, res = run_harness(ops, files, vec)
    out = {"hid": hid, "runs": 1, "compiles": nops, "violations": [], "ops": [(o[0], o[1]) for o in ops], "pool": [g["name"] for g in pool]}
    if res["timeout"]:
        out["timeouts"] = 1
        return out
    if res["exit"] != 0:
        out["violations"].append({"class": "harness-crashed", "key": "history:crash", "mode": "history", "exit": res["exit"], "stderr": res["stderr"][-2000:],
                                  "files": files, "ops": ops, "vector": vec})
        return out
    # references: each distinct (grammar, shell) alone in a fresh process, canonical seams
    refs = {}
    for gf, sh, p in ops:
        if (gf, sh) in refs:
            continue
        r, rres = run_harness([(gf, sh, "ref")], {gf: files[gf]}, canonical)
        out["runs"] += 1
        if rres["timeout"]:
            out["timeouts"] = out.get("timeouts", 0) + 1
            return out
        refs[(gf, sh)] = r["ref"]
    for idx, (gf, sh, p) in enumerate(ops):
        a, b = refs[(gf, sh)], got[p]
        d = [k for k in ("status", "script", "dfa", "regex") if a[k] != b[k]]
        if d:
            out["violations"].append({"class": "output-depends-on-process-history", "key": "history:" + "+".join(d), "mode": "history", "files": files,
                                      "ops": ops, "op_index": idx, "vector": vec, "differs": d})
            break
    return out


# ------------------------------------------------------------------ harness == binary (validates the harness)

def harness_matches_binary(g, shell):
    canonical = seam_vector(None, canonical=True)
    ref = run_vec(g["text"], shell, canonical)[1]
    got, _ = run_harness([("g.usage", shell, "x")], {"g.usage": g["text"]}, canonical)
    x = got["x"]
    if ref["exit"] != 0:
        return x["status"] != "ok"

    def body(s):
        # every script has one signature line carrying the build's `git describe` (first line; second for zsh)
        return None if s is None else "\n".join(l for l in s.split("\n") if "completion script generated by" not in l)
    return x["status"] == "ok" and body(x["script"]) == body(ref["script"]) and x["dfa"] == ref["dfa"] and x["regex"] == ref["regex"]


# ------------------------------------------------------------------ replay / minimise

def reproduce(v):
    if v["mode"] == "directed":
        r1, ref = run_vec(v["grammar"], v["shell"], v.get("ref_vector") or seam_vector(None, canonical=True), timeout=180)
        r2, got = run_vec(v["grammar"], v["shell"], v["vector"], timeout=180)
        if r1["timeout"] or r2["timeout"]:
            return None, {"note": "timed out"}
        d = diff_outputs(ref, got)
        return (v["class"] if d else None), {"differs": d}
    if v["mode"] == "history":
        canonical = seam_vector(None, canonical=True)
        ops = [tuple(o) for o in v["ops"]]
        got, res = run_harness(ops, v["files"], v["vector"], timeout=300)
        if res["timeout"]:
            return None, {"note": "timed out"}
        if res["exit"] != 0:
            return "harness-crashed", {"exit": res["exit"], "stderr": res["stderr"][-1000:]}
        for idx, (gf, sh, p) in enumerate(ops):
            r, _ = run_harness([(gf, sh, "ref")], {gf: v["files"][gf]}, canonical)
            d = [k for k in ("status", "script", "dfa", "regex") if r["ref"][k] != got[p][k]]
            if d:
                return "output-depends-on-process-history", {"op_index": idx, "differs": d}
        return None, {}
    if v["mode"] == "miri":
        from . import c10miri
        return c10miri.reproduce(v)
    return None, {}


def minimise(v):
    cur = json.loads(json.dumps(v))
    cls = v["class"]

    def holds(c):
        return reproduce(c)[0] == cls

    if v["mode"] == "directed":
        canonical = seam_vector(None, canonical=True)
        # seam values back to canonical, one at a time
        for k in ("env", "heappad", "heapfrag", "stack_kb", "rand", "time", "timestep", "pid", "host", "paths", "argv0", "tty", "umask", "cpus", "predest"):
            cand = json.loads(json.dumps(cur))
            cand["vector"][k] = canonical[k]
            if "ref_vector" in cand:
                cand["ref_vector"] = json.loads(json.dumps(cand["vector"]))
            if cand["vector"] != cur["vector"] and holds(cand):
                cur = cand
        # environment entries one by one
        for name in list(cur["vector"]["env"]):
            cand = json.loads(json.dumps(cur))
            del cand["vector"]["env"][name]
            if "ref_vector" in cand:
                cand["ref_vector"] = json.loads(json.dumps(cand["vector"]))
            if holds(cand):
                cur = cand
        # grammar statements
        stmts = cur["grammar"].split(";")
        i = 0
        budget = 60
        while i < len(stmts) and len(stmts) > 1 and budget > 0:
            cand = json.loads(json.dumps(cur))
            cand["grammar"] = ";".join(stmts[:i] + stmts[i + 1:])
            budget -= 1
            if holds(cand):
                stmts = stmts[:i] + stmts[i + 1:]
                cur = cand
            else:
                i += 1
    elif v["mode"] == "history":
        ops = cur["ops"]
        i = 0
        while i < len(ops) and len(ops) > 1:
            cand = json.loads(json.dumps(cur))
            cand["ops"] = ops[:i] + ops[i + 1:]
            if holds(cand):
                ops = cand["ops"]
                cur = cand
            else:
                i += 1
        cand = json.loads(json.dumps(cur))
        cand["vector"] = seam_vector(None, canonical=True)
        if holds(cand):
            cur = cand
        used = set(o[0] for o in cur["ops"])
        cur["files"] = {k: t for k, t in cur["files"].items() if k in used}
    got, detail = reproduce(cur)
    cur["class"] = got or cls
    cur["detail"] = detail
    return cur


def replay(payload):
    return reproduce(payload)


# ------------------------------------------------------------------ determinism of the machinery itself

def _scrub(text):
    """The scratch directory's random name shows up in the event log when the seam vector names files by ABSOLUTE path; it is
    not part of the plan (found by running the quick tier under VERIF_SEED=4: a harness error on the unchanged tree)."""
    import re
    return re.sub(r"vsim-[A-Za-z0-9_]+", "vsim-X", text if isinstance(text, str) else text.decode("latin-1"))


def determinism_probe(grammars, seed):
    """Same seed twice -> same seam vectors, same event logs, same outputs.  Returns (harness_bad, violations): outputs
    that differ although every seam was held equal are a violation of C10 itself (something outside the simulator's
    control -- /dev/urandom, the scratch directory's name, a racing thread -- reaches the output); logs that differ
    while the outputs agree only mean the simulator does not replay."""
    rng = Rng(seed, "c10/determinism")
    bad = 0
    violations = []
    for gi, g in enumerate(grammars[:2]):
        for k in range(2):
            vec = seam_vector(rng.sub("v%d/%d" % (gi, k)))
            sh = rng.choice(gram.SHELLS)
            a, oa = run_vec(g["text"], sh, vec)
            b, ob = run_vec(g["text"], sh, vec)
            d = [] if (a["timeout"] or b["timeout"]) else diff_outputs(oa, ob)
            if a["timeout"] or b["timeout"]:
                continue
            if d:
                violations.append({"class": "output-differs-between-identical-runs", "key": "identical:" + "+".join(d), "mode": "directed",
                                   "grammar": g["text"], "grammar_name": g["name"], "shell": sh, "vector": vec, "ref_vector": vec, "differs": d})
            elif (a["exit"], _scrub(a["raw_log"]), _scrub(a["stderr"])) != (b["exit"], _scrub(b["raw_log"]), _scrub(b["stderr"])):
                bad += 1
    return bad, violations


# ------------------------------------------------------------------ tier driver

def main(seed, tier):
    t = common.Timer()
    harness_ok = True
    try:
        build_harness()
    except HarnessError as e:
        # the harness uses the library's public API in main.rs's order; a tree that changed that API cannot be driven by it.
        # The fresh-process pass (real binary) does not need it and still runs; the evidence says what was skipped.
        harness_ok = False
        log("WARNING: history harness does not build against this tree; history and Miri passes are SKIPPED: %s" % str(e)[-300:])
    grammars = make_grammars(seed, tier)
    det_bad, det_violations = determinism_probe(grammars, seed)
    if det_bad:
        raise HarnessError("C10 determinism self-check failed: identical plans gave different event logs")
    quick = tier == "quick"
    nseeds = 6 if quick else 48
    jobs = []
    rng = Rng(seed, "c10/jobs")
    for g in grammars:
        shells = gram.SHELLS if (not quick or g["name"].startswith("example")) else rng.sample(gram.SHELLS, 2)
        for sh in shells:
            n = nseeds if not g["name"].endswith("mygit.usage") else max(2, nseeds // 3)
            if g.get("rand_only"):
                n = g["rand_only"]
            jobs.append((g, sh, seed, n))
    runs = 0
    violations = list(det_violations)
    ambient = {}
    accepted = {}
    samples = []
    distinct_vectors = 0
    timeouts = 0
    sizes = []
    for out in common.pmap(run_directed, jobs):
        runs += out["runs"]
        violations.extend(out["violations"])
        for a, n in out["ambient"].items():
            ambient[a] = ambient.get(a, 0) + n
        if out["ref_exit"] == 0:
            accepted[out["gid"]] = out["name"]
            distinct_vectors += out["vectors"]
            sizes.append(out["states"])
        timeouts += out.get("timeouts", 0)
        if out["sample"] and len(samples) < 4 and out["gid"] % 5 == 0:
            samples.append(out["sample"])
    # harness validation against the real binary (same library, same call order)
    ok_pool = [g for g in grammars if g["id"] in accepted]
    hv = Rng(seed, "c10/hv")
    checked = 0
    harness_mismatch = []
    for g in (hv.sample(ok_pool, min(len(ok_pool), 4 if quick else 20)) if harness_ok else []):
        sh = hv.choice(gram.SHELLS)
        if not harness_matches_binary(g, sh):
            # either the harness misrepresents main.rs (harness error) or two different executables of the same library disagree,
            # which is what address- or randomness-dependent output looks like; decided after triage: violations explain it
            harness_mismatch.append("%s/%s" % (g["name"], sh))
        checked += 1
    # histories
    nhist = (60 if quick else 1500) if harness_ok else 0
    hjobs = []
    hr = Rng(seed, "c10/histories")
    small_pool = [g for g in ok_pool if not g["name"].endswith("mygit.usage") and not g["name"].startswith("many-subwords")]
    # rejected grammars too: a compile AFTER A FAILED compile must equal a fresh one (error paths that leave state behind)
    bad_pool = []
    for i in range(8):
        br = hr.sub("bad/%d" % i)
        kind, text = gram.plant_mistake(br, gram.gen_grammar(br, br.range(2, 8)))
        bad_pool.append({"name": "rejected:" + kind, "text": text, "id": -1 - i})
    for h in range(nhist):
        pool = hr.sample(small_pool, min(len(small_pool), hr.range(1, 6)))
        if hr.chance(1, 3):
            pool = pool[:4] + hr.sample(bad_pool, hr.range(1, 2))
        if hr.chance(1, 25):
            pool = pool[:2] + [g for g in ok_pool if g["name"].endswith("mygit.usage")]
        hjobs.append((h, pool, seed))
    hruns = 0
    compiles = 0
    distinct_hist = set()
    for out in common.pmap(run_history, hjobs):
        hruns += out["runs"]
        compiles += out["compiles"]
        violations.extend(out["violations"])
        distinct_hist.add(json.dumps(out["ops"]) + json.dumps(out["pool"]))
        if len(samples) < 8 and out["hid"] % 20 == 0:
            samples.append({"history": out["ops"], "pool": out["pool"]})
    miri = None
    if not quick and harness_ok and os.environ.get("VERIF_SKIP_MIRI", "") == "":
        from . import c10miri
        miri = c10miri.run(seed, ok_pool)
        violations.extend(miri.pop("violations"))
    new, known = runner.triage("C10", seed, violations, minimise, lambda p: reproduce(p)[0])
    if harness_mismatch and not new and not known:
        raise HarnessError("history harness output differs from the complgen binary for %s although no nondeterminism was found: "
                           "the harness misrepresents main.rs" % harness_mismatch[:3])
    consumed = ambient.get("getrandom", 0) + ambient.get("getentropy", 0)
    coverage = {
        "evaluations": runs + hruns,
        "distinct_nontrivial": distinct_vectors + len(distinct_hist),
        "rule": "directed: one evaluation = one fresh process of the real complgen binary (script + --dfa + --regex) under procsim with a seeded "
                "vector of ambient values (getrandom stream, clock, pid/tid, hostname, whole environment block, RLIMIT_STACK -> mmap_base, heap pad; "
                "ASLR off), compared byte for byte with the canonical-vector run of the same build; history: one evaluation = one histharness process "
                "executing 2-12 compiles over a pool of <= 6 grammars, every operation compared with its single-operation fresh-process reference. "
                "distinct_nontrivial = distinct non-canonical seam vectors delivered to ACCEPTED grammars (exit 0, outputs compared) + distinct "
                "operation sequences.",
        "samples": samples or [{"note": "none"}],
        "grammars": len(grammars),
        "grammars_accepted": len(accepted),
        "dfa_edges_min_median_max": [min(sizes or [0]), sorted(sizes or [0])[len(sizes or [0]) // 2], max(sizes or [0])],
        "fresh_process_runs": runs,
        "seam_vectors_compared": distinct_vectors,
        "runs_cut_off_by_wall_clock_not_judged": timeouts,
        "history_processes": hruns,
        "history_compiles_in_process": compiles,
        "distinct_histories": len(distinct_hist),
        "ambient_sources_consulted": dict(sorted(ambient.items())),
        "randomness_delivered_and_consumed_calls": consumed,
        "history_harness_built": harness_ok,
        "harness_validated_against_binary": checked,
        "harness_vs_binary_mismatches": harness_mismatch,
        "miri": miri,
        "runs_per_hour": int((runs + hruns) / max(t.s(), 0.001) * 3600),
        "known_findings_matched": known,
        "aslr_disabled": proc.aslr_disable_works(),
        "real_code": "directed: the complgen binary built from /repo's working tree; history/miri: the whole complgen library through its public API",
        "stubbed": "history/miri: main.rs's argument and file handling is re-implemented in harness/src/main.rs (validated against the binary's output); "
                   "the OS side of getrandom/clock/pid/hostname/environment is the simulator",
    }
    common.write_evidence("C10", tier, seed, "exploration", coverage, t.s(), new, [
        "all comparisons are within one build (build.rs bakes `git describe` into the script header)",
        "kernel ASLR cannot be seeded: it is switched off and layout is perturbed via RLIMIT_STACK, environment size and a heap pad; the PIE image base moves only under Miri",
        "hashbrown's iteration order is NOT perturbed directly: with the shipped lockfile it is a fixed function of the input (constant ahash keys)",
    ])
    log("C10: fresh-process runs=%d vectors=%d histories=%d compiles=%d violations(new)=%d wall=%.1fs" % (runs, distinct_vectors, len(distinct_hist), compiles, new, t.s()))
    if consumed == 0:
        raise HarnessError("no getrandom call was observed: the randomness seam is not being consumed, evidence would be vacuous")
    return 1 if new else 0
