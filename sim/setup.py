"""./check setup: build everything from files on disk, then self-checks of the seams.

 1. procsim.so (gcc), complgen (cargo, /repo working tree), history harness (cargo).
 2. ASLR can be switched off (personality) -- else recorded, determinism proofs become the guard.
 3. Seam-completeness audit: the same command under `strace -f` and under the shim must show the same sequence of
    open/read/write on the role files and the same program-level getrandom calls.  A call that bypasses libc shows up
    as a mismatch and is a harness error.
"""
import os
import re
import shutil
import subprocess
import tempfile

from . import build, proc
from .build import HarnessError
from .common import log

AUDIT_GRAMMAR = "cmd <UNDEF> foo --opt=(a | b) {{{ echo x }}};\n<UNUSED> = x;\n"


def strace_trace(argv, files, cwd_root):
    d = tempfile.mkdtemp(prefix="vaudit-", dir=cwd_root)
    try:
        for n, t in files.items():
            with open(os.path.join(d, n), "w") as f:
                f.write(t)
        r = subprocess.run(["strace", "-f", "-o", "st.txt", "-e", "trace=openat,open,creat,read,write,readv,writev,pread64,pwrite64,getrandom,close",
                            build.COMPLGEN] + argv, cwd=d, capture_output=True, env={"LC_ALL": "C"})
        with open(os.path.join(d, "st.txt")) as f:
            lines = f.read().splitlines()
        return r.returncode, lines
    finally:
        shutil.rmtree(d, ignore_errors=True)


def audit():
    roles = {"in.usage": "input", "out.sh": "dest", "r.dot": "dotregex", "d.dot": "dotdfa"}
    argv = ["--bash", "out.sh", "--regex", "r.dot", "--dfa", "d.dot", "in.usage"]
    rc, lines = strace_trace(argv, {"in.usage": AUDIT_GRAMMAR}, proc.scratch_root())
    fdrole = {2: "stderr"}
    st = []
    for ln in lines:
        m = re.match(r"\d+\s+(\w+)\((.*)\)\s+=\s+(-?\d+)", ln)
        if not m:
            continue
        call, args, ret = m.group(1), m.group(2), int(m.group(3))
        if call in ("openat", "open", "creat"):
            pm = re.search(r'"([^"]*)"', args)
            path = pm.group(1) if pm else ""
            if path in roles:
                st.append(("open", roles[path], ret >= 0))
                if ret >= 0:
                    fdrole[ret] = roles[path]
        elif call in ("read", "write", "readv", "writev", "pread64", "pwrite64"):
            fd = int(args.split(",")[0])
            if fd in fdrole:
                st.append((call.rstrip("v").replace("64", "")[:5].replace("pread", "read").replace("pwrit", "write"), fdrole[fd], ret))
        elif call == "close":
            fd = int(args.split(",")[0] or -1)
            if fd in fdrole and fd != 2:
                del fdrole[fd]
        elif call == "getrandom":
            lm = re.search(r",\s*(\d+),", args)
            n = int(lm.group(1)) if lm else 0
            if "GRND_NONBLOCK" not in args or n != 8:  # glibc's own malloc/tcache randomisation (8 bytes, internal call)
                st.append(("getrandom", "-", ret))
    case = {"binary": "complgen", "argv": argv, "files": {"in.usage": AUDIT_GRAMMAR}, "stdin": None, "stdout": "pipe",
            "roles": {"input": "in.usage", "dest": "out.sh", "dotregex": "r.dot", "dotdfa": "d.dot"}, "plan": [], "env": {"LC_ALL": "C"},
            "watch": []}
    res = proc.run_case(case)
    sh = []
    for ev in res["events"]:
        c = ev["call"]
        if c == "open" and ev.get("role") in roles.values():
            sh.append(("open", ev["role"], int(ev["ret"]) >= 0))
        elif c in ("read", "write", "readv", "writev", "pread", "pwrite") and ev.get("role") in list(roles.values()) + ["stderr"]:
            sh.append((c.rstrip("v").replace("pread", "read").replace("pwrite", "write"), ev["role"], int(ev["ret"])))
        elif c in ("getrandom", "getentropy"):
            sh.append(("getrandom", "-", int(ev.get("len", "0"))))
    if rc != res["exit"]:
        raise HarnessError("audit: exit status differs with and without the shim (%s vs %s)" % (rc, res["exit"]))
    if st != sh:
        # first difference
        i = 0
        while i < min(len(st), len(sh)) and st[i] == sh[i]:
            i += 1
        raise HarnessError("seam-completeness audit failed at event %d: strace=%r shim=%r (lens %d/%d)" % (
            i, st[i:i + 3], sh[i:i + 3], len(st), len(sh)))
    return len(sh)


def main():
    build.build_procsim(force=True)
    log("built", build.PROCSIM_SO)
    build.build_complgen()
    log("built", build.COMPLGEN, "from", build.REPO, build.repo_head())
    try:
        from . import c10
        c10.setup_build()
    except ImportError:
        pass
    aslr = proc.aslr_disable_works()
    log("ASLR can be disabled via personality():", aslr)
    n = audit()
    log("seam-completeness audit: %d I/O + randomness events identical under strace and under the shim" % n)
    try:
        from . import c17
        c17.setup_check()
    except ImportError:
        pass
    log("setup ok")
    return 0
