"""Build steps: the complgen binary from /repo's working tree, procsim.so, the
history harness.  All output under /verif/target (never /repo/target)."""
import os
import subprocess
import sys

VERIF = os.path.dirname(os.path.dirname(os.path.abspath(__file__)))
REPO = os.environ.get("VERIF_REPO", "/repo")
TARGET = os.path.join(VERIF, "target")
REPO_TARGET = os.path.join(TARGET, "repo")
COMPLGEN = os.path.join(REPO_TARGET, "debug", "complgen")
PROCSIM_SO = os.path.join(TARGET, "procsim.so")
HARNESS_DIR = os.path.join(VERIF, "harness")
HARNESS_TARGET = os.path.join(TARGET, "harness")
HARNESS = os.path.join(HARNESS_TARGET, "debug", "histharness")


# dev profile (debug assertions and overflow checks stay ON) with optimisation, so that the bundled mygit example
# compiles in 0.17 s instead of 1.5 s; passed on the command line so that /repo's Cargo.toml stays untouched
PROFILE_CFG = ["--config", 'profile.dev.package."*".opt-level=2', "--config", "profile.dev.opt-level=1"]


class HarnessError(Exception):
    """Something in the machinery itself is broken (exit 2), not the property."""


def _env():
    env = dict(os.environ)
    env["CARGO_NET_OFFLINE"] = "true"
    env.setdefault("CARGO_TERM_COLOR", "never")
    return env


def build_procsim(force=False):
    src = os.path.join(VERIF, "sim", "procsim", "procsim.c")
    os.makedirs(TARGET, exist_ok=True)
    if not force and os.path.exists(PROCSIM_SO) and os.path.getmtime(PROCSIM_SO) >= os.path.getmtime(src):
        return PROCSIM_SO
    tmp = PROCSIM_SO + ".%d.tmp" % os.getpid()
    r = subprocess.run(["gcc", "-O2", "-fPIC", "-shared", "-Wall", "-Wno-nonnull-compare", "-fno-delete-null-pointer-checks", "-o", tmp, src, "-ldl"],
                       capture_output=True, text=True)
    if r.returncode != 0:
        raise HarnessError("gcc failed for procsim.c:\n" + r.stderr)
    os.replace(tmp, PROCSIM_SO)
    return PROCSIM_SO


def build_complgen():
    """cargo build of /repo's *current working tree* (incremental)."""
    r = subprocess.run(["cargo", "build", "--offline", "--quiet", "--manifest-path", os.path.join(REPO, "Cargo.toml"),
                        "--target-dir", REPO_TARGET, "--bin", "complgen"] + PROFILE_CFG,
                       capture_output=True, text=True, env=_env())
    if r.returncode != 0 or not os.path.exists(COMPLGEN):
        raise HarnessError("cargo build of %s failed:\n%s" % (REPO, r.stderr[-4000:]))
    return COMPLGEN


def build_harness():
    lock_src = os.path.join(REPO, "Cargo.lock")
    lock_dst = os.path.join(HARNESS_DIR, "Cargo.lock")
    if not os.path.exists(lock_dst):
        with open(lock_src) as f, open(lock_dst, "w") as g:
            g.write(f.read())
    r = subprocess.run(["cargo", "build", "--offline", "--quiet", "--manifest-path", os.path.join(HARNESS_DIR, "Cargo.toml"),
                        "--target-dir", HARNESS_TARGET],
                       capture_output=True, text=True, env=_env())
    if r.returncode != 0 or not os.path.exists(HARNESS):
        raise HarnessError("cargo build of history harness failed:\n%s" % r.stderr[-4000:])
    return HARNESS


def repo_head():
    try:
        head = subprocess.run(["git", "-C", REPO, "rev-parse", "--short", "HEAD"], capture_output=True, text=True).stdout.strip()
        dirty = subprocess.run(["git", "-C", REPO, "status", "--porcelain", "--untracked-files=no"], capture_output=True, text=True).stdout.strip()
        return head + ("+dirty" if dirty else "")
    except Exception:
        return "unknown"


if __name__ == "__main__":
    build_procsim(force=True)
    build_complgen()
    print("built", COMPLGEN, PROCSIM_SO, file=sys.stderr)
