"""Tier drivers: build, explore, triage violations (known findings / minimise / replay file), evidence."""
import json
import os

from . import build, common, proc
from .common import log


def triage(prop, seed, violations, minimise, reproduce_class, max_minimise=6):
    """violations: list of dicts with 'key' and 'class'.  Returns (new_count, known_lines)."""
    findings = common.load_known_findings()
    by_key = {}
    for v in violations:
        by_key.setdefault(v["key"], v)
    new = 0
    known = {}
    n = 0
    for key, v in by_key.items():
        k = common.match_known(prop, key, findings)
        if k is not None:
            known.setdefault(key, k)
            continue
        n += 1
        payload = v
        if n <= max_minimise:
            try:
                payload = minimise(v)
            except Exception as e:  # minimisation must never hide the violation
                log("minimisation failed (%s); reporting unminimised" % e)
                payload = v
            # the minimised case may have become a *known* shape; re-key it
        payload = dict(payload)
        payload["property"] = prop
        payload["seed"] = seed
        payload["engine"] = {"C06": "procsim", "C10": "procsim+history", "C17": "bashsim"}[prop]
        path = common.write_replay(prop, seed, n, payload)
        # re-run the replay file once, in fresh processes, before printing it
        with open(path) as f:
            again = reproduce_class(json.load(f))
        status = "reproduced" if again else "NOT-reproduced-on-replay"
        if not again and (str(payload.get("class", "")).startswith("hang") or payload.get("class") == "completion-did-not-finish"):
            # the only wall-clock-dependent verdict: a timeout that does not come back on replay was machine load, not a hang
            log("ANOMALY: %s timed out once but finished on replay (%s); not reported" % (key, path))
            os.remove(path)
            continue
        print("VIOLATION property=%s replay=%s" % (prop, path))
        log("  class=%s key=%s (%s)" % (payload.get("class"), key, status))
        new += 1
    for key, k in known.items():
        print("KNOWN-FINDING: property=%s %s -- %s" % (prop, key, k.get("what", "")))
    return new, len(known)


def run(prop, tier):
    seed = common.verif_seed()
    log("VERIF_SEED=%d property=%s tier=%s repo=%s" % (seed, prop, tier, build.repo_head()))
    build.build_procsim()
    build.build_complgen()
    if prop == "C06":
        from . import c06main
        return c06main.main(seed, tier)
    if prop == "C10":
        from . import c10
        return c10.main(seed, tier)
    if prop == "C17":
        from . import c17
        return c17.main(seed, tier)
    return 2
