import json
NA = {
 "C01": "COMPREPLY is a pure function of (grammar, COMP_WORDS, COMP_CWORD, COMP_WORDBREAKS): one execution per input, no schedule, clock, fault or history for a simulator to control; its only multi-party part (external commands) is claimed as C17.",
 "C02": "language equivalence of a compiled automaton with its grammar is an exact automata-theoretic decision per input; the only schedule-like freedom (work-list pop order) is fixed by constant hash keys and is what C10 guards.",
 "C03": "minimisation is a pure function of the automaton; equivalence and minimality are exact decisions per automaton, nothing ambient to simulate.",
 "C04": "correspondence between emitted table text and the automaton is a pure text-to-structure function per (grammar, shell).",
 "C05": "print/parse round trip of a pure parser: input generation, not simulation.",
 "C07": "string-constant quoting is a pure function of the string; bash -n and execution add no nondeterminism or faults.",
 "C08": "accept/reject classification and diagnostic kind are pure functions of the grammar text and shell (the unreached-cycle defect found on the way is repaired under C06).",
 "C09": "a structural property of the compiled automaton plus a deterministic bash run; bash's own associative-array iteration order is internal to bash, not a seam this simulator can own.",
 "C11": "definition lookup order is a pure function of which definitions exist.",
 "C12": "within-word tokenisation is a pure function of the literal set and the typed word.",
 "C13": "line/column arithmetic is a pure function of the preceding text.",
 "C14": "a metamorphic relation between two inputs; nothing varies between two runs on the same input (that is C10).",
 "C15": "warning sets are set equalities on a pure function; the one fault-sensitive facet (warnings never change exit status or script when stderr fails) is exercised under C06 rule 4.",
 "C16": "DOT well-formedness is a pure function of the grammar; I/O faults on the dot files are exercised under C06, their determinism under C10.",
}
checks = []
import sys
claimed = sys.argv[1:]
defs = {
 "C06": {
  "property_id": "C06", "quick_cmd": "./check C06 --tier quick", "thorough_cmd": "./check C06 --tier thorough",
  "evidence_file": "evidence/C06.json", "replay_cmd_template": "./check replay {path}", "engine": "procsim",
  "level_claimed": {"category": "fault_enumeration",
   "text": "The real complgen binary (built from /repo's working tree) runs under an LD_PRELOAD seam (procsim.so) that owns every open/read/write/statx/lseek on the input, script destination, dot files and stderr. For each seeded workload item (bundled examples, generated valid grammars, one planted mistake per Error variant, warning triggers, token mutations, token soups, a fixed stress corpus) x shell x input{file,stdin} x destination{new,existing+sentinel,stdout pipe,stdout file} x dot outputs, EVERY position of the fault-free syscall trace on input/destination/stderr is hit with every fault kind (EINTR, short read/write, hard errno, short-then-error, persistent errno, size-hint failure), dot-file positions and double faults are sampled; isatty() answers are a configuration; rejected inputs are additionally swept over both file-destination modes; a small real-kernel cross-check (/dev/full, /dev/null, FIFO, /dev/stdout pipe, directory as destination; /dev/full as stderr) ties the simulated fault model to the kernel. The oracle is the statement's two arms read literally (exit 0 + complete script, or exit 1 + diagnostic + destination untouched) with narrowly waived clauses only for the fault that actually fired (from the shim's event log). The fault dimension is enumerated per sampled input; the input dimension itself is a seeded sample.",
   "design_ref": "DESIGN.md 2.1, 3/C06"},
  "level_note": "Trusted: glibc interposition covers every I/O system call of the binary (audited against strace at setup); kernel behaviours injected are legal ones only; allocation failure, close() errors, lost writes and signals are not injected. The input quantifier is sampled, not enumerated.",
  "technique": "deterministic simulation with fault injection: LD_PRELOAD syscall seam, single-fault enumeration over the fault-free trace + seeded double faults, replay = explicit plan file",
 },
 "C10": {
  "property_id": "C10", "quick_cmd": "./check C10 --tier quick", "thorough_cmd": "./check C10 --tier thorough",
  "evidence_file": "evidence/C10.json", "replay_cmd_template": "./check replay {path}", "engine": "procsim+history",
  "level_claimed": {"category": "exploration",
   "text": "Every ambient source the process can consult (getrandom/getentropy bytes, a clock that advances by a seed-chosen step, pid/tid, hostname, the whole environment block incl. every name the binary is seen to look up, isatty answers, umask, visible CPUs, stack/heap/mmap layout with ASLR off and seed-chosen RLIMIT_STACK, environment size, heap pad and heap fragmentation pattern) and everything that is not part of (grammar, shell) on the command line (how input and outputs are named, stdin vs file, argv[0], pre-existing content of the destinations) is owned by the simulator and varied by seed; a discovery pass records which sources are actually consulted. Script, --dfa and --regex outputs of the real binary must be byte-identical to the canonical-seam reference for every seed, and in the in-process history harness every compile must equal its fresh-process reference whatever was compiled before it in that process. Thorough adds the same harness under Miri (every allocation address and getrandom byte derived from Miri's seed).",
   "design_ref": "DESIGN.md 2.1-2.3, 3/C10"},
  "level_note": "Trusted: the LD_PRELOAD seam reaches every ambient source (discovery log + strace audit); kernel ASLR itself cannot be seeded, so it is switched off and layout is perturbed through stack limit, environment size and heap pad (PIE image base moves only under Miri). A seeded sample of grammars and seeds, not a proof.",
  "technique": "deterministic simulation: seeded control of OS randomness, clocks, identity, environment and address layout around the real binary + in-process compile histories; seeded search, byte-equality oracle against a canonical run",
 },
 "C17": {
  "property_id": "C17", "quick_cmd": "./check C17 --tier quick", "thorough_cmd": "./check C17 --tier thorough",
  "evidence_file": "evidence/C17.json", "replay_cmd_template": "./check replay {path}", "engine": "bashsim",
  "level_claimed": {"category": "exploration",
   "text": "The emitted bash script (real complgen output, real bash 5.2) runs among simulator-owned external commands: every {{{ }}} command is a probe that logs its identity and argv and then plays a seed-assigned behaviour (candidates, tab-separated descriptions, spaces, stderr noise, non-zero exit, empty output, duplicates, >64 KiB output). The recorded invocation history and COMPREPLY are checked against an independent Glushkov position automaton built from the generator's own grammar tree: a command never runs where the grammar does not expect it, receives exactly the documented arguments, its candidates are the text before the first tab filtered by the typed prefix, and earlier words are accepted exactly when they are candidates. Command lines include earlier words and typed prefixes that merely pattern-match (as shell globs) what is expected without being equal to / a prefix of it, extended and truncated words and candidates of other commands; the script's ambient readline configuration (`bind -v`: completion-ignore-case) is a simulator-owned seam answered `on` in a quarter of the bash processes.",
   "design_ref": "DESIGN.md 2.4, 3/C17"},
  "level_note": "Trusted: bash itself, the _get_comp_words_by_ref contract stub (honours -n EXCLUDE; the real bash_completion file is not installed in this sandbox), the reference model; grammars are generated 1-unambiguous per point so that union semantics and the script's matching priority coincide. A seeded sample of grammars, command lines and peer behaviours.",
  "technique": "deterministic simulation of the script's peers: simulator-owned probe commands with injected peer faults, history check against an executable reference model (position automaton)",
 },
}
m = {
 "version": 1,
 "setup_cmd": "./check setup",
 "hooks": {"guard": "complgen_verif", "enable": "none needed: the seams are the libc call boundary (LD_PRELOAD) and the emitted script's external commands; /repo is built unmodified (cargo build --offline into /verif/target)",
           "baseline_off_cmd": "cd /repo && cargo test --workspace --no-fail-fast --offline", "source_commits": [], "add_only": True},
 "engines": [
  {"name": "procsim", "path": "sim/procsim/procsim.c", "serves_properties": ["C06", "C10"], "kind_free_text": "LD_PRELOAD shim: role-classified fds, explicit fault plans, seeded getrandom/clock/pid/host, event log"},
  {"name": "history", "path": "harness/", "serves_properties": ["C10"], "kind_free_text": "Rust binary linking the complgen library; seed-chosen compile sequences in one process; also run under Miri"},
  {"name": "bashsim", "path": "sim/c17.py", "serves_properties": ["C17"], "kind_free_text": "real bash + emitted script among simulator-owned probe commands; Glushkov reference model"},
 ],
 "checks": [defs[c] for c in claimed],
 "not_applicable": [{"property_id": k, "reason": v} for k, v in NA.items()] + [
   {"property_id": c, "reason": "claimed in DESIGN.md; check under construction in this session, not yet registered"} for c in ("C06","C10","C17") if c not in claimed],
 "notes": "See DESIGN.md. Exit 0 = held (KNOWN-FINDING lines allowed), 1 = VIOLATION line, 2 = harness error. Known findings: known_findings.json.",
}
json.dump(m, open('/verif/MANIFEST.json','w'), indent=1)
