/*
 * procsim.so -- LD_PRELOAD seam between the real `complgen` binary (or the
 * history harness) and the operating system.  See DESIGN.md 2.1.
 *
 * The simulator (Python driver) writes a *plan* file; this shim executes it:
 *   - classifies every file descriptor by role (input, dest, dotregex,
 *     dotdfa, stderr, stdout, stdin, other),
 *   - counts calls per (role, class) and applies the plan entry that names
 *     exactly that occurrence (fault injection),
 *   - answers getrandom / clocks / pid / hostname from plan values,
 *   - writes one event-log line per intercepted call.
 *
 * Logical time = the intercepted-call sequence number.  Nothing here draws
 * randomness or reads a real clock.  Replay = same plan file.
 *
 * Plan file grammar (one entry per line, '#' comments):
 *   role <input|dest|dotregex|dotdfa> <path|->
 *   rand <u64>              seed of the byte stream served by getrandom (0 = zeros)
 *   time <sec>              epoch served by clock_gettime/gettimeofday/time
 *   timestep <ns>           how far the simulated clock advances per clock call (default 1 ns): large values are
 *                           clock jumps / a slow or suspended process, as seen by any deadline logic in the program
 *   pid <n>                 value served by getpid
 *   host <name>             value served by gethostname / uname.nodename
 *   tty <fd> <0|1>          what isatty(fd) answers (default: the real answer); terminals are a configuration like any other
 *   heappad <bytes>         leaked malloc before main (moves later heap addresses)
 *   heapfrag <u64>          seed of a fragmentation pattern built before main: ~48 blocks of mixed sizes are allocated
 *                           and a seed-chosen subset freed, so that later allocations land in holes and their RELATIVE
 *                           order changes (a uniform shift would not reveal ordering by address)
 *   fault <role> <class> <nth> eintr
 *   fault <role> <class> <nth> short <nbytes>
 *   fault <role> <class> <nth> err <ERRNO-NAME>
 *   fault <role> <class> <nth> errfrom <ERRNO-NAME>   persistent: this and every later call of that (role, class) fails
 *   class in {open, read, write, stat, seek}
 */
#define _GNU_SOURCE
#include <dlfcn.h>
#include <errno.h>
#include <fcntl.h>
#include <stdarg.h>
#include <stdint.h>
#include <stdio.h>
#include <stdlib.h>
#include <string.h>
#include <sys/stat.h>
#include <sys/syscall.h>
#include <sys/time.h>
#include <sys/types.h>
#include <sys/uio.h>
#include <sys/utsname.h>
#include <time.h>
#include <unistd.h>

enum role { R_OTHER, R_INPUT, R_DEST, R_DOTREGEX, R_DOTDFA, R_STDERR, R_STDOUT, R_STDIN, R_OTHERW, R_NROLES };
static const char *role_name[R_NROLES] = { "other", "input", "dest", "dotregex", "dotdfa", "stderr", "stdout", "stdin", "otherw" };
enum cls { C_OPEN, C_READ, C_WRITE, C_STAT, C_SEEK, C_NCLS };
static const char *cls_name[C_NCLS] = { "open", "read", "write", "stat", "seek" };
enum act { A_NONE, A_EINTR, A_SHORT, A_ERR, A_ERRFROM };

struct fault { int role, cls; long nth; int act; long arg; int used; };

#define MAXFD 4096
#define MAXFAULT 256
#define LOGFD 1000

static int active = 0;
static unsigned char fdrole[MAXFD];
static char *role_path[R_NROLES];
static struct fault faults[MAXFAULT];
static int nfaults = 0;
static long counts[R_NROLES][C_NCLS];
static long seq = 0;
static uint64_t rand_seed = 0, rand_state = 0;
static long long plan_time = 0; static int have_time = 0;
static long long time_ticks = 0; static long long time_step = 1;
static long plan_pid = 0; static int have_pid = 0;
static char plan_host[65]; static int have_host = 0;
static char logpath[512];
static signed char tty_answer[16] = { -1, -1, -1, -1, -1, -1, -1, -1, -1, -1, -1, -1, -1, -1, -1, -1 };

static const struct { const char *n; int v; } errtab[] = {
    {"EINTR", EINTR}, {"EIO", EIO}, {"ENOSPC", ENOSPC}, {"EDQUOT", EDQUOT}, {"EFBIG", EFBIG},
    {"EPIPE", EPIPE}, {"EAGAIN", EAGAIN}, {"ENOENT", ENOENT}, {"EACCES", EACCES},
    {"EMFILE", EMFILE}, {"ENFILE", ENFILE}, {"EISDIR", EISDIR}, {"ENOMEM", ENOMEM},
    {"EROFS", EROFS}, {"EBADF", EBADF}, {"EINVAL", EINVAL}, {"ENOSYS", ENOSYS},
    {"EPERM", EPERM}, {"ESPIPE", ESPIPE}, {"ENXIO", ENXIO}, {"ETXTBSY", ETXTBSY}, {NULL, 0}
};
static int err_by_name(const char *s) { for (int i = 0; errtab[i].n; i++) if (!strcmp(errtab[i].n, s)) return errtab[i].v; return EIO; }
static const char *err_name(int e) { for (int i = 0; errtab[i].n; i++) if (errtab[i].v == e) return errtab[i].n; return "E?"; }

/* ------------------------------------------------------------------ log */
#define MAX_LOG_EVENTS 400000L   /* a program spinning on an injected persistent error must not fill the log device */
static long log_events = 0;
static void logf_(const char *fmt, ...) {
    if (!active) return;
    if (++log_events > MAX_LOG_EVENTS) {
        if (log_events == MAX_LOG_EVENTS + 1) { static const char t[] = "-1 log-truncated\n"; syscall(SYS_write, LOGFD, t, sizeof t - 1); }
        return;
    }
    char buf[1024];
    va_list ap; va_start(ap, fmt);
    int n = vsnprintf(buf, sizeof buf, fmt, ap);
    va_end(ap);
    if (n < 0) return;
    if (n > (int)sizeof buf - 1) n = sizeof buf - 1;
    int saved = errno;
    long off = 0;
    while (off < n) { long r = syscall(SYS_write, LOGFD, buf + off, (long)(n - off)); if (r <= 0) break; off += r; }
    errno = saved;
}

static int role_by_name(const char *s) { for (int i = 0; i < R_NROLES; i++) if (!strcmp(role_name[i], s)) return i; return -1; }
static int cls_by_name(const char *s) { for (int i = 0; i < C_NCLS; i++) if (!strcmp(cls_name[i], s)) return i; return -1; }

static uint64_t splitmix(void) {
    uint64_t z = (rand_state += 0x9E3779B97F4A7C15ULL);
    z = (z ^ (z >> 30)) * 0xBF58476D1CE4E5B9ULL;
    z = (z ^ (z >> 27)) * 0x94D049BB133111EBULL;
    return z ^ (z >> 31);
}

static void unset_env(const char *name) {
    extern char **environ;
    size_t l = strlen(name);
    if (!environ) return;
    char **w = environ;
    for (char **r = environ; *r; r++) {
        if (!strncmp(*r, name, l) && (*r)[l] == '=') continue;
        *w++ = *r;
    }
    *w = NULL;
}

/* ------------------------------------------------------------ fork server
 * Process creation is the scarce resource on the build VM (exec + dynamic loading + relocation page faults are
 * serialised system-wide), and all fault plans of one workload item share argv and input files.  With
 * PROCSIM_FORKSERVER="<ctl_fd>,<status_fd>" the constructor therefore parks *before main()* and forks one child
 * per request: the request names a prepared run directory (files, .plan, optional .stdin); the child chdir()s there,
 * points fds 0/1/2 at .stdin/.stdout/.stderr and returns into the normal initialisation and then main().  The parent
 * reports "P <pid>" and, after waitpid, "S <raw wait status>". */
#include <sys/wait.h>
static void forkserver_loop(const char *spec) {
    int ctl = -1, st = -1;
    if (sscanf(spec, "%d,%d", &ctl, &st) != 2) return;
    for (;;) {
        char dir[1024]; size_t n = 0;
        for (;;) {
            char c; long r = syscall(SYS_read, ctl, &c, 1L);
            if (r <= 0) _exit(0);
            if (c == '\n') break;
            if (n < sizeof dir - 1) dir[n++] = c;
        }
        dir[n] = 0;
        pid_t pid = fork();
        if (pid < 0) { dprintf(st, "E fork\n"); continue; }
        if (pid == 0) {
            syscall(SYS_close, ctl); syscall(SYS_close, st);
            if (chdir(dir) != 0) _exit(97);
            long fd = syscall(SYS_openat, AT_FDCWD, ".stdin", O_RDONLY, 0);
            if (fd < 0) fd = syscall(SYS_openat, AT_FDCWD, "/dev/null", O_RDONLY, 0);
            if (fd != 0) { syscall(SYS_dup3, (int)fd, 0, 0); syscall(SYS_close, (int)fd); }
            fd = syscall(SYS_openat, AT_FDCWD, ".stdout", O_WRONLY | O_CREAT | O_TRUNC, 0644);
            if (fd != 1) { syscall(SYS_dup3, (int)fd, 1, 0); syscall(SYS_close, (int)fd); }
            fd = syscall(SYS_openat, AT_FDCWD, ".stderr", O_WRONLY | O_CREAT | O_TRUNC | O_APPEND, 0644);
            if (fd != 2) { syscall(SYS_dup3, (int)fd, 2, 0); syscall(SYS_close, (int)fd); }
            unset_env("PROCSIM_FORKSERVER");
            return; /* into procsim_init's normal path, then main() */
        }
        dprintf(st, "P %d\n", (int)pid);
        int status = 0;
        while (waitpid(pid, &status, 0) < 0 && errno == EINTR) {}
        dprintf(st, "S %d\n", status);
    }
}

__attribute__((constructor)) static void procsim_init(void) {
    const char *fsrv = getenv("PROCSIM_FORKSERVER");
    if (fsrv) forkserver_loop(fsrv);
    const char *plan = getenv("PROCSIM_PLAN");
    const char *log = getenv("PROCSIM_LOG");
    if (!plan || !log) return;
    snprintf(logpath, sizeof logpath, "%s", log);
    long fd = syscall(SYS_openat, AT_FDCWD, log, O_WRONLY | O_CREAT | O_TRUNC | O_APPEND, 0644);
    if (fd < 0) return;
    if (fd != LOGFD) { syscall(SYS_dup3, (int)fd, LOGFD, 0); syscall(SYS_close, (int)fd); }
    fdrole[0] = R_STDIN; fdrole[1] = R_STDOUT; fdrole[2] = R_STDERR;
    long pfd = syscall(SYS_openat, AT_FDCWD, plan, O_RDONLY, 0);
    size_t heappad = 0;
    uint64_t heapfrag = 0;
    if (pfd >= 0) {
        static char pbuf[65536];
        long n = 0, r;
        while ((r = syscall(SYS_read, (int)pfd, pbuf + n, (long)(sizeof pbuf - 1 - n))) > 0) n += r;
        syscall(SYS_close, (int)pfd);
        pbuf[n] = 0;
        char *save = NULL;
        for (char *line = strtok_r(pbuf, "\n", &save); line; line = strtok_r(NULL, "\n", &save)) {
            char a[64], b[512], c[64], d[64], e[64];
            if (line[0] == '#' || !line[0]) continue;
            if (sscanf(line, "role %63s %511[^\n]", a, b) == 2) {
                int r2 = role_by_name(a);
                if (r2 > 0) {
                    role_path[r2] = strdup(b);
                    if (!strcmp(b, "-")) { if (r2 == R_INPUT) fdrole[0] = R_INPUT; else fdrole[1] = r2; }
                }
            } else if (sscanf(line, "rand %63s", a) == 1) { rand_seed = strtoull(a, NULL, 0); rand_state = rand_seed; }
            else if (sscanf(line, "timestep %63s", a) == 1) { time_step = strtoll(a, NULL, 0); if (time_step < 1) time_step = 1; }
            else if (sscanf(line, "time %63s", a) == 1) { plan_time = strtoll(a, NULL, 0); have_time = 1; }
            else if (sscanf(line, "pid %63s", a) == 1) { plan_pid = strtol(a, NULL, 0); have_pid = 1; }
            else if (sscanf(line, "host %63s", a) == 1) { snprintf(plan_host, sizeof plan_host, "%s", a); have_host = 1; }
            else if (sscanf(line, "tty %63s %63s", a, c) == 2) { int fdn = atoi(a); if (fdn >= 0 && fdn < 16) tty_answer[fdn] = atoi(c) ? 1 : 0; }
            else if (sscanf(line, "heappad %63s", a) == 1) { heappad = strtoull(a, NULL, 0); }
            else if (sscanf(line, "heapfrag %63s", a) == 1) { heapfrag = strtoull(a, NULL, 0); }
            else if (sscanf(line, "fault %63s %63s %63s %63s %63s", a, c, d, e, b) >= 4 && nfaults < MAXFAULT) {
                struct fault *f = &faults[nfaults];
                f->role = role_by_name(a); f->cls = cls_by_name(c); f->nth = strtol(d, NULL, 0);
                f->used = 0; f->arg = 0;
                if (!strcmp(e, "eintr")) f->act = A_EINTR;
                else if (!strcmp(e, "short")) { f->act = A_SHORT; f->arg = strtol(b, NULL, 0); }
                else if (!strcmp(e, "err")) { f->act = A_ERR; f->arg = err_by_name(b); }
                else if (!strcmp(e, "errfrom")) { f->act = A_ERRFROM; f->arg = err_by_name(b); }
                else f->act = A_NONE;
                if (f->role >= 0 && f->cls >= 0 && f->act != A_NONE) nfaults++;
            }
        }
    }
    unset_env("PROCSIM_PLAN"); unset_env("PROCSIM_LOG"); unset_env("LD_PRELOAD");
    active = 1;
    if (heappad) { volatile char *p = malloc(heappad); if (p) p[0] = 1; }
    if (heapfrag) {
        static const size_t sizes[] = { 24, 40, 72, 136, 520, 1032, 4104, 16392, 65552, 66000, 70000, 100000, 131000 };
        void *blk[48];
        uint64_t st = heapfrag;
        for (int i = 0; i < 48; i++) {
            st = st * 6364136223846793005ULL + 1442695040888963407ULL;
            blk[i] = malloc(sizes[(st >> 33) % (sizeof sizes / sizeof sizes[0])]);
            if (blk[i]) ((volatile char *)blk[i])[0] = 1;
        }
        for (int i = 0; i < 48; i++) {
            st = st * 6364136223846793005ULL + 1442695040888963407ULL;
            if ((st >> 40) & 1) free(blk[i]);
        }
    }
    logf_("%ld init rand=%llu time=%lld pid=%ld heappad=%zu\n", seq++, (unsigned long long)rand_seed, plan_time, plan_pid, heappad);
}

static struct fault *pick(int role, int cls) {
    long n = counts[role][cls]++;
    for (int i = 0; i < nfaults; i++) {
        if (faults[i].role != role || faults[i].cls != cls) continue;
        if (faults[i].act == A_ERRFROM && n >= faults[i].nth) {
            /* persistent failure: presented to the call sites as an ordinary hard error */
            static struct fault persistent;
            persistent = faults[i]; persistent.act = A_ERR;
            return &persistent;
        }
        if (!faults[i].used && faults[i].nth == n) { faults[i].used = 1; return &faults[i]; }
    }
    return NULL;
}
static int roleof(int fd) { return (fd >= 0 && fd < MAXFD) ? fdrole[fd] : R_OTHER; }

/* ----------------------------------------------------------------- open */
static int classify_path(const char *path, int flags) {
    if (!path) return R_OTHER;
    for (int r = R_INPUT; r <= R_DOTDFA; r++)
        if (role_path[r] && !strcmp(role_path[r], path)) return r;
    if ((flags & O_ACCMODE) != O_RDONLY) return R_OTHERW;
    return R_OTHER;
}

typedef int (*open_fn)(const char *, int, ...);
typedef int (*openat_fn)(int, const char *, int, ...);

static int do_open(const char *sym, int dirfd, const char *path, int flags, mode_t mode, int is_at) {
    int role = active ? classify_path(path, flags) : R_OTHER;
    long nth = 0;
    if (active) {
        nth = counts[role][C_OPEN];
        struct fault *f = pick(role, C_OPEN);
        if (f && (f->act == A_EINTR || f->act == A_ERR)) {
            int e = f->act == A_EINTR ? EINTR : (int)f->arg;
            logf_("%ld open %s nth=%ld path=%s flags=%#x ret=-1 errno=%s inj=%s\n", seq++, role_name[role], nth, path, flags, err_name(e), f->act == A_EINTR ? "eintr" : "err");
            errno = e; return -1;
        }
    }
    int fd;
    if (is_at) { openat_fn real = (openat_fn)dlsym(RTLD_NEXT, sym); fd = real(dirfd, path, flags, mode); }
    else { open_fn real = (open_fn)dlsym(RTLD_NEXT, sym); fd = real(path, flags, mode); }
    int saved = errno;
    if (active) {
        if (fd >= 0 && fd < MAXFD) fdrole[fd] = role;
        logf_("%ld open %s nth=%ld path=%s flags=%#x ret=%d errno=%s inj=-\n", seq++, role_name[role], nth, path ? path : "(null)", flags, fd, fd < 0 ? err_name(saved) : "0");
    }
    errno = saved;
    return fd;
}

#define GETMODE() mode_t mode = 0; if (flags & (O_CREAT | O_TMPFILE)) { va_list ap; va_start(ap, flags); mode = va_arg(ap, mode_t); va_end(ap); }
int open(const char *path, int flags, ...) { GETMODE(); return do_open("open", 0, path, flags, mode, 0); }
int open64(const char *path, int flags, ...) { GETMODE(); return do_open("open64", 0, path, flags, mode, 0); }
int openat(int dirfd, const char *path, int flags, ...) { GETMODE(); return do_open("openat", dirfd, path, flags, mode, 1); }
int openat64(int dirfd, const char *path, int flags, ...) { GETMODE(); return do_open("openat64", dirfd, path, flags, mode, 1); }
int creat(const char *path, mode_t mode) { return do_open("open", 0, path, O_CREAT | O_WRONLY | O_TRUNC, mode, 0); }
int creat64(const char *path, mode_t mode) { return do_open("open64", 0, path, O_CREAT | O_WRONLY | O_TRUNC, mode, 0); }

int close(int fd) {
    static int (*real)(int);
    if (!real) real = dlsym(RTLD_NEXT, "close");
    if (active && fd == LOGFD) { errno = EBADF; return -1; }
    int role = roleof(fd);
    int r = real(fd);
    if (active && fd >= 3 && fd < MAXFD) {
        if (role != R_OTHER) logf_("%ld close %s fd=%d ret=%d\n", seq++, role_name[role], fd, r);
        fdrole[fd] = R_OTHER;
    }
    return r;
}

/* dup family: keep roles attached to the new descriptor */
int dup(int fd) { static int (*real)(int); if (!real) real = dlsym(RTLD_NEXT, "dup"); int n = real(fd); if (active && n >= 0 && n < MAXFD) fdrole[n] = roleof(fd); return n; }
int dup2(int fd, int nfd) { static int (*real)(int, int); if (!real) real = dlsym(RTLD_NEXT, "dup2"); if (active && nfd == LOGFD) { errno = EBADF; return -1; } int n = real(fd, nfd); if (active && n >= 0 && n < MAXFD) fdrole[n] = roleof(fd); return n; }
int dup3(int fd, int nfd, int fl) { static int (*real)(int, int, int); if (!real) real = dlsym(RTLD_NEXT, "dup3"); if (active && nfd == LOGFD) { errno = EBADF; return -1; } int n = real(fd, nfd, fl); if (active && n >= 0 && n < MAXFD) fdrole[n] = roleof(fd); return n; }

/* ------------------------------------------------------------ read/write */
static int tracked(int role) { return role != R_OTHER; }

static ssize_t rw_common(int cls, const char *name, int fd, size_t count, ssize_t (*doit)(void *, size_t), void *ctx) {
    int role = roleof(fd);
    if (!active || !tracked(role)) return doit(ctx, count);
    long nth = counts[role][cls];
    struct fault *f = pick(role, cls);
    if (f && f->act == A_EINTR) { logf_("%ld %s %s nth=%ld fd=%d req=%zu ret=-1 errno=EINTR inj=eintr\n", seq++, name, role_name[role], nth, fd, count); errno = EINTR; return -1; }
    if (f && f->act == A_ERR) { logf_("%ld %s %s nth=%ld fd=%d req=%zu ret=-1 errno=%s inj=err\n", seq++, name, role_name[role], nth, fd, count, err_name((int)f->arg)); errno = (int)f->arg; return -1; }
    size_t eff = count; const char *inj = "-";
    if (f && f->act == A_SHORT && f->arg >= 1 && (size_t)f->arg < count) { eff = (size_t)f->arg; inj = "short"; }
    else if (f && f->act == A_SHORT) inj = "short-noop";
    ssize_t r = doit(ctx, eff);
    int saved = errno;
    logf_("%ld %s %s nth=%ld fd=%d req=%zu ret=%zd errno=%s inj=%s\n", seq++, name, role_name[role], nth, fd, count, r, r < 0 ? err_name(saved) : "0", inj);
    errno = saved;
    return r;
}

struct rwctx { int fd; void *buf; off_t off; };
static ssize_t real_read_(void *c, size_t n) { static ssize_t (*real)(int, void *, size_t); if (!real) real = dlsym(RTLD_NEXT, "read"); struct rwctx *x = c; return real(x->fd, x->buf, n); }
static ssize_t real_write_(void *c, size_t n) { static ssize_t (*real)(int, const void *, size_t); if (!real) real = dlsym(RTLD_NEXT, "write"); struct rwctx *x = c; return real(x->fd, x->buf, n); }
static ssize_t real_pread_(void *c, size_t n) { static ssize_t (*real)(int, void *, size_t, off_t); if (!real) real = dlsym(RTLD_NEXT, "pread64"); struct rwctx *x = c; return real(x->fd, x->buf, n, x->off); }
static ssize_t real_pwrite_(void *c, size_t n) { static ssize_t (*real)(int, const void *, size_t, off_t); if (!real) real = dlsym(RTLD_NEXT, "pwrite64"); struct rwctx *x = c; return real(x->fd, x->buf, n, x->off); }

ssize_t read(int fd, void *buf, size_t count) { struct rwctx c = { fd, buf, 0 }; return rw_common(C_READ, "read", fd, count, real_read_, &c); }
ssize_t write(int fd, const void *buf, size_t count) { if (active && fd == LOGFD) { errno = EBADF; return -1; } struct rwctx c = { fd, (void *)buf, 0 }; return rw_common(C_WRITE, "write", fd, count, real_write_, &c); }
ssize_t pread(int fd, void *buf, size_t count, off_t off) { struct rwctx c = { fd, buf, off }; return rw_common(C_READ, "pread", fd, count, real_pread_, &c); }
ssize_t pread64(int fd, void *buf, size_t count, off_t off) { struct rwctx c = { fd, buf, off }; return rw_common(C_READ, "pread", fd, count, real_pread_, &c); }
ssize_t pwrite(int fd, const void *buf, size_t count, off_t off) { struct rwctx c = { fd, (void *)buf, off }; return rw_common(C_WRITE, "pwrite", fd, count, real_pwrite_, &c); }
ssize_t pwrite64(int fd, const void *buf, size_t count, off_t off) { struct rwctx c = { fd, (void *)buf, off }; return rw_common(C_WRITE, "pwrite", fd, count, real_pwrite_, &c); }

/* vectored: a short count truncates the iovec list to that many bytes */
struct vctx { int fd; const struct iovec *iov; int cnt; int wr; };
static ssize_t real_v_(void *c, size_t n) {
    static ssize_t (*rreadv)(int, const struct iovec *, int); static ssize_t (*rwritev)(int, const struct iovec *, int);
    if (!rreadv) rreadv = dlsym(RTLD_NEXT, "readv");
    if (!rwritev) rwritev = dlsym(RTLD_NEXT, "writev");
    struct vctx *x = c;
    struct iovec tmp[64]; int k = 0; size_t left = n;
    for (int i = 0; i < x->cnt && k < 64 && left > 0; i++) {
        tmp[k] = x->iov[i];
        if (tmp[k].iov_len > left) tmp[k].iov_len = left;
        left -= tmp[k].iov_len; k++;
    }
    return x->wr ? rwritev(x->fd, tmp, k) : rreadv(x->fd, tmp, k);
}
static size_t iov_total(const struct iovec *iov, int cnt) { size_t t = 0; for (int i = 0; i < cnt; i++) t += iov[i].iov_len; return t; }
ssize_t readv(int fd, const struct iovec *iov, int cnt) { struct vctx c = { fd, iov, cnt, 0 }; return rw_common(C_READ, "readv", fd, iov_total(iov, cnt), real_v_, &c); }
ssize_t writev(int fd, const struct iovec *iov, int cnt) { if (active && fd == LOGFD) { errno = EBADF; return -1; } struct vctx c = { fd, iov, cnt, 1 }; return rw_common(C_WRITE, "writev", fd, iov_total(iov, cnt), real_v_, &c); }

/* ------------------------------------------------------- size-hint calls */
static int stat_fault(const char *name, int fd) {
    int role = roleof(fd);
    if (!active || !tracked(role)) return 0;
    long nth = counts[role][C_STAT];
    struct fault *f = pick(role, C_STAT);
    if (f && (f->act == A_ERR || f->act == A_EINTR)) {
        int e = f->act == A_EINTR ? EINTR : (int)f->arg;
        logf_("%ld %s %s nth=%ld fd=%d ret=-1 errno=%s inj=err\n", seq++, name, role_name[role], nth, fd, err_name(e));
        errno = e; return -1;
    }
    logf_("%ld %s %s nth=%ld fd=%d inj=-\n", seq++, name, role_name[role], nth, fd);
    return 0;
}
int statx(int dirfd, const char *restrict path, int flags, unsigned int mask, struct statx *restrict st) {
    static int (*real)(int, const char *, int, unsigned int, struct statx *);
    if (!real) real = dlsym(RTLD_NEXT, "statx");
    const char *volatile vp = path; /* std probes statx(0, NULL, ...) expecting EFAULT: never dereference NULL here */
    const char *p2 = vp;
    if (p2 != NULL && p2[0] == 0 && stat_fault("statx", dirfd)) return -1;
    return real(dirfd, path, flags, mask, st);
}
int fstat(int fd, struct stat *st) { static int (*real)(int, struct stat *); if (!real) real = dlsym(RTLD_NEXT, "fstat"); if (stat_fault("fstat", fd)) return -1; return real(fd, st); }
int fstat64(int fd, struct stat64 *st) { static int (*real)(int, struct stat64 *); if (!real) real = dlsym(RTLD_NEXT, "fstat64"); if (stat_fault("fstat", fd)) return -1; return real(fd, st); }
static off_t seek_common(int fd, off_t off, int wh, const char *sym) {
    static off_t (*real)(int, off_t, int);
    if (!real) real = dlsym(RTLD_NEXT, "lseek64");
    (void)sym;
    int role = roleof(fd);
    if (active && tracked(role)) {
        long nth = counts[role][C_SEEK];
        struct fault *f = pick(role, C_SEEK);
        if (f && (f->act == A_ERR || f->act == A_EINTR)) {
            int e = f->act == A_EINTR ? EINTR : (int)f->arg;
            logf_("%ld lseek %s nth=%ld fd=%d ret=-1 errno=%s inj=err\n", seq++, role_name[role], nth, fd, err_name(e));
            errno = e; return -1;
        }
        logf_("%ld lseek %s nth=%ld fd=%d inj=-\n", seq++, role_name[role], nth, fd);
    }
    return real(fd, off, wh);
}
off_t lseek(int fd, off_t off, int wh) { return seek_common(fd, off, wh, "lseek"); }
off64_t lseek64(int fd, off64_t off, int wh) { return seek_common(fd, off, wh, "lseek64"); }

/* metadata-changing calls on paths: logged only (the program is not expected to use them) */
int rename(const char *a, const char *b) { static int (*real)(const char *, const char *); if (!real) real = dlsym(RTLD_NEXT, "rename"); int r = real(a, b); logf_("%ld rename from=%s to=%s ret=%d\n", seq++, a, b, r); return r; }
int unlink(const char *a) { static int (*real)(const char *); if (!real) real = dlsym(RTLD_NEXT, "unlink"); int r = real(a); logf_("%ld unlink path=%s ret=%d\n", seq++, a, r); return r; }
int ftruncate(int fd, off_t l) { static int (*real)(int, off_t); if (!real) real = dlsym(RTLD_NEXT, "ftruncate"); int r = real(fd, l); logf_("%ld ftruncate %s fd=%d len=%lld ret=%d\n", seq++, role_name[roleof(fd)], fd, (long long)l, r); return r; }
int ftruncate64(int fd, off64_t l) { static int (*real)(int, off64_t); if (!real) real = dlsym(RTLD_NEXT, "ftruncate64"); int r = real(fd, l); logf_("%ld ftruncate %s fd=%d len=%lld ret=%d\n", seq++, role_name[roleof(fd)], fd, (long long)l, r); return r; }
int fsync(int fd) { static int (*real)(int); if (!real) real = dlsym(RTLD_NEXT, "fsync"); int r = real(fd); logf_("%ld fsync %s fd=%d ret=%d\n", seq++, role_name[roleof(fd)], fd, r); return r; }
int fdatasync(int fd) { static int (*real)(int); if (!real) real = dlsym(RTLD_NEXT, "fdatasync"); int r = real(fd); logf_("%ld fdatasync %s fd=%d ret=%d\n", seq++, role_name[roleof(fd)], fd, r); return r; }

/* --------------------------------------------------- ambient sources (C10) */
static void fill_rand(unsigned char *p, size_t n) {
    if (rand_seed == 0) { memset(p, 0, n); return; }
    size_t i = 0;
    while (i < n) { uint64_t v = splitmix(); for (int k = 0; k < 8 && i < n; k++, i++) p[i] = (unsigned char)(v >> (8 * k)); }
}
ssize_t getrandom(void *buf, size_t len, unsigned int flags) {
    static ssize_t (*real)(void *, size_t, unsigned int);
    if (!active) { if (!real) real = dlsym(RTLD_NEXT, "getrandom"); return real(buf, len, flags); }
    fill_rand(buf, len);
    logf_("%ld getrandom len=%zu flags=%#x\n", seq++, len, flags);
    return (ssize_t)len;
}
int getentropy(void *buf, size_t len) {
    static int (*real)(void *, size_t);
    if (!active) { if (!real) real = dlsym(RTLD_NEXT, "getentropy"); return real(buf, len); }
    fill_rand(buf, len);
    logf_("%ld getentropy len=%zu\n", seq++, len);
    return 0;
}
int clock_gettime(clockid_t clk, struct timespec *ts) {
    static int (*real)(clockid_t, struct timespec *);
    if (!real) real = dlsym(RTLD_NEXT, "clock_gettime");
    if (!active || !have_time) return real(clk, ts);
    time_ticks += time_step;
    ts->tv_sec = plan_time + time_ticks / 1000000000LL; ts->tv_nsec = time_ticks % 1000000000LL;
    logf_("%ld clock_gettime clk=%d\n", seq++, (int)clk);
    return 0;
}
int gettimeofday(struct timeval *tv, void *tz) {
    static int (*real)(struct timeval *, void *);
    if (!real) real = dlsym(RTLD_NEXT, "gettimeofday");
    if (!active || !have_time) return real(tv, tz);
    time_ticks += time_step;
    if (tv) { tv->tv_sec = plan_time + time_ticks / 1000000000LL; tv->tv_usec = (time_ticks / 1000) % 1000000LL; }
    logf_("%ld gettimeofday\n", seq++);
    return 0;
}
time_t time(time_t *t) {
    static time_t (*real)(time_t *);
    if (!real) real = dlsym(RTLD_NEXT, "time");
    if (!active || !have_time) return real(t);
    time_ticks += time_step;
    time_t now = (time_t)(plan_time + time_ticks / 1000000000LL);
    if (t) *t = now;
    logf_("%ld time\n", seq++);
    return now;
}
pid_t getpid(void) {
    static pid_t (*real)(void);
    if (!real) real = dlsym(RTLD_NEXT, "getpid");
    if (!active || !have_pid) return real();
    logf_("%ld getpid\n", seq++);
    return (pid_t)plan_pid;
}
pid_t getppid(void) {
    static pid_t (*real)(void);
    if (!real) real = dlsym(RTLD_NEXT, "getppid");
    if (!active || !have_pid) return real();
    logf_("%ld getppid\n", seq++);
    return (pid_t)(plan_pid + 1);
}
int gethostname(char *name, size_t len) {
    static int (*real)(char *, size_t);
    if (!real) real = dlsym(RTLD_NEXT, "gethostname");
    if (!active || !have_host) return real(name, len);
    snprintf(name, len, "%s", plan_host);
    logf_("%ld gethostname\n", seq++);
    return 0;
}
int uname(struct utsname *u) {
    static int (*real)(struct utsname *);
    if (!real) real = dlsym(RTLD_NEXT, "uname");
    int r = real(u);
    if (active && have_host && r == 0) { snprintf(u->nodename, sizeof u->nodename, "%s", plan_host); logf_("%ld uname\n", seq++); }
    return r;
}
char *getenv(const char *name) {
    extern char **environ;
    /* own implementation (dlsym(getenv) would recurse during init); logs which names are looked up */
    if (active) logf_("%ld getenv name=%s\n", seq++, name);
    if (!environ || !name) return NULL;
    size_t l = strlen(name);
    for (char **e = environ; *e; e++) if (!strncmp(*e, name, l) && (*e)[l] == '=') return *e + l + 1;
    return NULL;
}
char *secure_getenv(const char *name) { return getenv(name); }
pid_t gettid(void) {
    static pid_t (*real)(void);
    if (!real) real = dlsym(RTLD_NEXT, "gettid");
    if (!active) return real();
    logf_("%ld gettid\n", seq++);
    return (pid_t)(have_pid ? plan_pid : 4242);
}

int isatty(int fd) {
    static int (*real)(int);
    if (!real) real = dlsym(RTLD_NEXT, "isatty");
    if (active && fd >= 0 && fd < 16 && tty_answer[fd] >= 0) {
        logf_("%ld isatty fd=%d ret=%d\n", seq++, fd, (int)tty_answer[fd]);
        if (!tty_answer[fd]) errno = ENOTTY;
        return tty_answer[fd];
    }
    int r = real(fd);
    if (active) logf_("%ld isatty fd=%d ret=%d\n", seq++, fd, r);
    return r;
}
