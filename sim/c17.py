"""C17 -- external commands run only when expected, with the documented arguments/output.

Engine: bashsim (DESIGN.md 2.4, 3/C17).  Real complgen output sourced into real bash; every external command is a
simulator-owned `__probe` that logs (id, argv) and then plays a seed-assigned behaviour.  The recorded invocation
history and COMPREPLY are checked against the reference model in c17model.py.
"""
import json
import os
import shutil
import subprocess
import tempfile

from . import build, common, proc, runner
from .build import HarnessError
from .c17model import FOREIGN, Leaf, Model, Node, cands_of, expectation, show
from .common import log
from .prng import Rng

US, RS = "\x1f", "\x1e"
DEFAULT_WORDBREAKS = " \t\n\"'@><=;|&(:"     # bash's default

HARNESS_SH = r'''
LOG="$PWD/log"; : > "$LOG"
__probe() {
    # no external processes in here (fork+exec is the scarce resource on this VM): behaviours are preloaded
    local k=$1; shift
    { printf 'INV\x1f%s\x1f%s' "$k" "$#"; printf '\x1f%s' "$@"; printf '\x1e\n'; } >> "$LOG"
    printf '%s' "${BEH_OUT[$k]}"
    printf '%s' "${BEH_ERR[$k]}" >&2
    return ${BEH_RC[$k]}
}
__load_behaviours() {
    local f k v
    for f in beh/*.rc; do
        k=${f#beh/}; k=${k%.rc}
        v=$(<"beh/$k.out"); BEH_OUT[$k]=${v%X}      # files carry a trailing X so that $(<) keeps the final newlines
        v=$(<"beh/$k.err"); BEH_ERR[$k]=${v%X}
        BEH_RC[$k]=$(<"beh/$k.rc")
    done
}
declare -a BEH_OUT BEH_ERR BEH_RC
__load_behaviours
_get_comp_words_by_ref() {
    # Contract stub for bash-completion's function as the script uses it: `-n EXCLUDE words cword`, EXCLUDE = characters of
    # COMP_WORDBREAKS that must NOT split words.  The harness hands over whole words; for every break character that the
    # caller did NOT exclude the words are split the way readline would have split them (runs of such characters become
    # words of their own).  With `-n "$COMP_WORDBREAKS"` nothing is split and this is the plain 3-line stub.
    local exclude=""
    if [[ ${1-} == -n ]]; then exclude=$2; shift 2; fi
    local breaks=${COMP_WORDBREAKS//[$' \t\n']/} eff="" i ch
    for ((i = 0; i < ${#breaks}; i++)); do
        ch=${breaks:i:1}
        [[ $exclude == *"$ch"* ]] || eff+=$ch
    done
    if [[ -z $eff ]]; then
        words=("${COMP_WORDS[@]}"); cword=$COMP_CWORD
        return
    fi
    local -a out=()
    local w piece j c inbreak newc=0 k
    for ((k = 0; k < ${#COMP_WORDS[@]}; k++)); do
        w=${COMP_WORDS[k]}
        if [[ -z $w ]]; then out+=(""); else
            piece=""; inbreak=-1
            for ((j = 0; j < ${#w}; j++)); do
                c=${w:j:1}
                if [[ $eff == *"$c"* ]]; then
                    if [[ $inbreak -ne 1 && -n $piece ]]; then out+=("$piece"); piece=""; fi
                    inbreak=1; piece+=$c
                else
                    if [[ $inbreak -eq 1 && -n $piece ]]; then out+=("$piece"); piece=""; fi
                    inbreak=0; piece+=$c
                fi
            done
            [[ -n $piece ]] && out+=("$piece")
        fi
        [[ $k -eq $COMP_CWORD ]] && newc=$(( ${#out[@]} - 1 ))
    done
    words=("${out[@]}"); cword=$newc
}
__case() {
    local id=$1; shift
    COMP_WORDS=("$@"); COMP_CWORD=$(( $# - 1 )); COMPREPLY=()
    printf 'CASE\x1f%s\x1e\n' "$id" >> "$LOG"
    __CMDFN__
    local rc=$?
    { printf 'REPLY\x1f%s\x1f%s\x1f%s' "$id" "$rc" "${#COMPREPLY[@]}"; [[ ${#COMPREPLY[@]} -gt 0 ]] && printf '\x1f%s' "${COMPREPLY[@]}"; printf '\x1e\n'; } >> "$LOG"
}
'''

LIT_POOL = ["add", "remove", "list", "show", "--verbose", "--force", "-x", "-q", "sub.cmd", "k_v", "run", "stop", "status", "--dry-run", "apply",
            "get", "put", "init", "--all", "-A", "log", "fetch", "co", "br"]
SW_HEADS = ["--opt=", "--file=", "-I", "key:", "--level=", "@", "--set-", "of=", "p,"]
SW_SEPS = [",", ":", "=", "..", "-", "/"]
NT_NAMES = ["ARG", "REF", "HOST", "USER", "FILE", "ITEM", "THING"]
DECOR = ["plain", "plain", "plain", "extra_words", "noop_prefix", "and_prefix", "odd_spacing", "newline_inside", "trailing_semicolon",
         "multiline_arg", "heredoc_arg", "exit_after", "exit_after", "exit_after", "ifs_change"]
BEHAVIOURS = ["plain", "plain", "plain", "exit_nonzero", "stderr_noise", "empty", "empty_nonzero", "tab_descr", "dups", "spaces", "large", "dash",
              "exit_and_stderr", "prefix_chain", "wordbreak_chars", "glob_candidate"]


# ------------------------------------------------------------------ generation

class Gen:
    def __init__(self, rng):
        self.rng = rng
        self.nlit = 0
        self.probes = []       # k -> {"decor":..., "deco_args": [...]}
        self.forbidden = []    # probe ids that appear only in definitions that must never be used under bash
        self.nt_of = {}        # id(leaf) or (id(sw leaf), part index) -> nonterminal name
        self.defs = []         # extra definition statements
        self.used_nt = set()
        self.anys = 0
        self.subdefs = []      # (name, node): <name> = printed subtree; the occurrence prints as <name>
        self.last_plp = None

    def lit(self):
        self.nlit += 1
        base = self.rng.choice(LIT_POOL)
        return "%s%d" % (base, self.nlit) if self.rng.chance(2, 3) else "%s-%d" % (base, self.nlit)

    def new_probe(self, forbidden=False):
        k = len(self.probes)
        decor = self.rng.choice(DECOR)
        deco_args = []
        if decor == "extra_words":
            deco_args = self.rng.sample(["extra", "two  spaces", "x=y", "--flag", "semi;colon", "star*"], self.rng.range(1, 3))
        elif decor == "multiline_arg":
            # leading / trailing blanks on the continuation lines are data: "exactly that command text"
            deco_args = ["first line\n    indented second line  \n\tthird"]
        elif decor == "heredoc_arg":
            deco_args = ["  here-doc body, indented \n\n  after a blank line"]
        self.probes.append({"decor": decor, "deco_args": deco_args, "forbidden": forbidden})
        if forbidden:
            self.forbidden.append(k)
        return k

    def probe_ref(self, setname):
        """A probe, possibly reached through a (shell-specific) definition.  `setname(name)` records on the occurrence that it
        is printed as <name>."""
        r = self.rng
        k = self.new_probe()
        how = r.below(10)
        if how < 5:
            return k            # inline {{{ }}}
        name = "%s%d" % (r.choice(NT_NAMES), k)
        setname(name)
        if how < 7:
            self.defs.append(("plain", name, k))
        elif how < 9:
            # bash-specific definition wins over a plain one and over other shells' definitions
            self.defs.append(("bash", name, k))
            if r.chance(1, 2):
                self.defs.append(("plain", name, self.new_probe(forbidden=True)))
            if r.chance(1, 2):
                self.defs.append((r.choice(["fish", "zsh", "pwsh"]), name, self.new_probe(forbidden=True)))
        else:
            self.defs.append(("plain", name, k))
            self.defs.append((r.choice(["fish", "zsh", "pwsh"]), name, self.new_probe(forbidden=True)))
        return k

    def sw(self):
        r = self.rng
        leaf = Leaf("sw", parts=[])
        shape = r.weighted([(5, "LP"), (2, "LPLP"), (2, "PLP"), (3, "LA"), (1, "LALP")])
        head = r.choice(SW_HEADS)
        head = head[:-1] + str(self.nlit + 1) + head[-1] if r.chance(1, 2) else head
        self.nlit += 1

        def sep():
            # literals inside one word stay prefix-free among themselves (C01/C12's restriction: uniquely tokenisable);
            # with head `-I` and separator `-` the emitted matcher stops at the separator because `-I` extends it
            ok = [x for x in SW_SEPS if not head.startswith(x) and not x.startswith(head)]
            return r.choice(ok or ["/"])

        def lits():
            n = r.range(2, 3)
            self.nlit += 1
            return ("lits", ["v%d%s%d" % (self.nlit, r.choice(["a", "bq", "z"]), j) for j in range(n)])
        if shape == "LP":
            parts = [("lit", head), ("probe", None)]
        elif shape == "LPLP":
            parts = [("lit", head), ("probe", None), ("lit", sep()), ("probe", None)]
        elif shape == "PLP":
            parts = [("probe", None), ("lit", r.choice(SW_SEPS)), ("probe", None)]
        elif shape == "LA":
            parts = [("lit", head), lits()]            # literal-only word, e.g. --color=(always | never)
        else:
            parts = [("lit", head), lits(), ("lit", sep()), ("probe", None)]
        same = r.chance(1, 3)
        first_k = None
        first_i = None
        for i, (kind, v) in enumerate(parts):
            if kind == "probe":
                if same and first_k is not None:
                    parts[i] = ("probe", first_k)
                    if first_i in leaf.part_nt:
                        leaf.part_nt[i] = leaf.part_nt[first_i]
                else:
                    k = self.probe_ref(lambda name, i=i: leaf.part_nt.__setitem__(i, name))
                    parts[i] = ("probe", k)
                    if first_k is None:
                        first_k, first_i = k, i
        leaf.parts = parts
        if shape == "PLP" and parts[0][1] != parts[2][1]:
            self.last_plp = leaf
        return leaf

    def mirrored(self, src):
        """A second within-word expression made of the SAME pieces as `src` in the opposite order (`<A>:<B>` / `<B>:<A>`):
        two automata with equal input sets and equal shape that must nevertheless stay two automata."""
        leaf = Leaf("sw", parts=[src.parts[2], src.parts[1], src.parts[0]])
        for i, j in ((0, 2), (2, 0)):
            if j in src.part_nt:
                leaf.part_nt[i] = src.part_nt[j]
        return leaf

    def leaf(self, allow_any):
        r = self.rng
        k = r.below(100)
        if k < 34:
            return Leaf("lit", text=self.lit())
        if k < 62:
            l = Leaf("probe")
            l.k = self.probe_ref(lambda name: setattr(l, "nt", name))
            return l
        if k < 92:
            return self.sw()
        if allow_any and self.anys < 2:
            self.anys += 1
            return Leaf("any")
        return Leaf("lit", text=self.lit())

    def expr(self, depth, budget, in_fb=False):
        n = self._expr(depth, budget, in_fb)
        # reach the subtree through a definition (so that commands are also "reached through definitions" of any depth)
        if depth > 0 and self.rng.chance(1, 5) and not n.nt and not (isinstance(n, Leaf) and n.kind == "any"):
            name = "%s%d" % (self.rng.choice(["SUB", "GROUP", "OPTS", "TARGET"]), len(self.subdefs))
            n.nt = name
            self.subdefs.append((name, n))
        return n

    def _expr(self, depth, budget, in_fb=False):
        r = self.rng
        if depth >= 3 or budget[0] <= 0:
            budget[0] -= 1
            return self.leaf(allow_any=False)
        k = r.below(100)
        budget[0] -= 1
        if k < 30:
            return self.leaf(allow_any=False)
        if k < 60:
            n = r.range(2, 4)
            kids = []
            for i in range(n):
                if i > 0 and r.chance(1, 6) and isinstance(kids[-1], Leaf) and kids[-1].kind in ("lit", "probe") and not kids[-1].nt:
                    # <_> only right after a plain single item, so that it never shares a point with anything else
                    self.anys += 1
                    kids.append(Leaf("any"))
                    kids.append(Leaf("lit", text=self.lit()))
                else:
                    kids.append(self.expr(depth + 1, budget, in_fb))
            return Node("seq", kids)
        if k < 78:
            return Node("alt", [self.expr(depth + 1, budget, in_fb) for _ in range(r.range(2, 3))])
        if k < 86 and not in_fb:
            return Node("fb", [self.expr(depth + 1, budget, True) for _ in range(r.range(2, 3))])
        if k < 93:
            return Node("opt", [self.expr(depth + 1, budget, in_fb)])
        return Node("many", [self.expr(depth + 1, budget, in_fb)])


def command_text(k, info, rng_unused=None):
    base = '__probe %d "$@"' % k
    d = info["decor"]
    if d in ("extra_words", "multiline_arg"):
        return base + "".join(" '%s'" % a for a in info["deco_args"])
    if d == "heredoc_arg":
        return base + ' "$(cat <<\'EOT\'\n%s\nEOT\n)"' % info["deco_args"][0]
    if d == "noop_prefix":
        return ": ; " + base
    if d == "and_prefix":
        return "true && " + base
    if d == "odd_spacing":
        return "__probe   %d    \"$@\"" % k
    if d == "newline_inside":
        return ":\n    " + base
    if d == "trailing_semicolon":
        return base + " ;"
    if d == "exit_after":
        # every command runs in its own subshell: ending it must not affect the other commands asked at the same point
        return base + "; exit 0"
    if d == "ifs_change":
        return "IFS=:x; " + base
    return base


def assign_behaviours(rng, nprobes, in_word=()):
    """Per probe: candidates (globally unique, prefix-free per probe) + the behaviour it plays."""
    beh = {}
    dash_used = False
    for k in range(nprobes):
        kind = rng.choice(BEHAVIOURS)
        if kind == "dash" and dash_used:
            kind = "plain"
        if kind == "glob_candidate" and k in in_word:
            kind = "plain"    # inside words the unchanged tree itself treats a candidate as a pattern (C07/C12 territory)
        n = rng.range(1, 4)
        cands = ["c%dx%d%s" % (k, j, rng.choice(["a", "bb", "q7", ""])) for j in range(n)]
        lines = list(cands)
        stderr = ""
        rc = 0
        if kind == "exit_nonzero":
            rc = rng.choice([1, 2, 127, 255])
        elif kind == "stderr_noise":
            stderr = "probe %d: warning: something\nmore noise\n" % k
        elif kind == "exit_and_stderr":
            rc = 1
            stderr = "fatal: not a git repository\n"
        elif kind == "empty":
            lines = []
        elif kind == "empty_nonzero":
            lines = []
            rc = 128
            stderr = "fatal: not a git repository (or any of the parent directories): .git\n"
        elif kind == "tab_descr":
            lines = ["%s\t%s" % (c, rng.choice(["a description", "descr with\ttabs inside", "x", "  padded  "])) for c in cands]
        elif kind == "dups":
            lines = cands + cands[:1] + cands
        elif kind == "spaces":
            cands = ["c%dx%d %s" % (k, j, rng.choice(["file name", "b", "two  sp"])) for j in range(n)]
            lines = [c + ("\tdescr" if rng.chance(1, 2) else "") for c in cands]
        elif kind == "large":
            # > 64 KiB of output, with real candidates at the very beginning AND at the very end
            lines = cands[:-1] + ["c%dy%05d-%s" % (k, j, "p" * 12) for j in range(3200)] + cands[-1:]
        elif kind == "glob_candidate":
            # one candidate that would match other words if it were ever used as a PATTERN (`git branch` prints `* main`);
            # it is offered like any other but never used as a typed complete word
            cands = ["c%dx%d" % (k, j) for j in range(n)] + ["c%dx*" % k]
            lines = list(cands)
        elif kind == "wordbreak_chars":
            # candidates containing characters of COMP_WORDBREAKS: only the TYPED prefix may be stripped, never the candidates
            cands = ["c%dx%d%s" % (k, j, rng.choice(["=v", ":w", "=a=b", ":"])) for j in range(n)]
            lines = list(cands)
        elif kind == "prefix_chain":
            # one candidate is a proper prefix of another (dev / devel); complete words use the maximal ones only
            cands = ["c%dx%d" % (k, j) for j in range(n)] + ["c%dx0el" % k]
            lines = list(cands)
        elif kind == "dash":
            dash_used = True
            lines = rng.sample(["-n", "-e", "-E"], rng.range(1, 3)) + cands
        beh[k] = {"kind": kind, "stdout": "".join(l + "\n" for l in lines), "stderr": stderr, "rc": rc}
    return beh


def gen_case(rng):
    """One grammar: tree + text + probes."""
    g = Gen(rng)
    nvar = rng.weighted([(5, 1), (3, 2), (1, 3)])
    budget = [rng.range(3, 9)]
    variants = [g.expr(0, budget) for _ in range(nvar)]
    if rng.chance(1, 3):
        # a leading zero-or-more loop that ends in a command and is followed by something mandatory: after minimisation and
        # renumbering the loop's command transitions lead back to the start state
        tag = Leaf("lit", text=g.lit())
        pa = Leaf("probe")
        pa.k = g.probe_ref(lambda name: setattr(pa, "nt", name))
        body = Node("seq", [tag, pa]) if rng.chance(2, 3) else pa
        alts = [body] + ([Leaf("lit", text=g.lit())] if rng.chance(1, 2) else [])
        loop = Node("many", [Node("opt", [Node("alt", alts) if len(alts) > 1 else body])])
        if rng.chance(1, 2):
            pb = Leaf("probe")
            pb.k = g.probe_ref(lambda name: setattr(pb, "nt", name))
            tail = pb
        else:
            tail = Leaf("lit", text=g.lit())
        variants[0] = Node("seq", [loop, tail])
    if g.last_plp is not None and rng.chance(2, 3):
        # `get <A>:<B> | put <B>:<A>`
        a, b = Leaf("lit", text=g.lit()), Leaf("lit", text=g.lit())
        variants.append(Node("alt", [Node("seq", [a, g.mirrored(g.last_plp)]), Node("seq", [b, g.mirrored(g.mirrored(g.last_plp))])]))
        nvar += 1
    root = variants[0] if nvar == 1 else Node("alt", variants)
    cmdtext = {k: command_text(k, info) for k, info in enumerate(g.probes)}
    name = rng.choice(["cmd", "tool", "my-cmd", "t_1"])
    stmts = ["%s %s;" % (name, show(v, cmdtext, g.nt_of)) for v in variants]
    for nt, node in g.subdefs:
        stmts.append("<%s> %s %s;" % (nt, rng.choice(["=", "::="]), show(node, cmdtext, g.nt_of, top=True)))
    for shell, nt, k in g.defs:
        if shell == "plain":
            stmts.append("<%s> = {{{ %s }}};" % (nt, cmdtext[k]))
        else:
            stmts.append("<%s@%s> = {{{ %s }}};" % (nt, shell, cmdtext[k]))
    defs = stmts[nvar:]
    rng.shuffle(defs)
    text = "\n".join(stmts[:nvar] + defs) + "\n"
    return {"root": root, "text": text, "name": name, "probes": g.probes, "forbidden": g.forbidden}


# serialisation of trees (replay files must be self-contained)
def tree_to_json(n):
    if isinstance(n, Leaf):
        return {"leaf": n.kind, "text": n.text, "k": n.k, "parts": n.parts}
    return {"op": n.op, "kids": [tree_to_json(k) for k in n.kids]}


def tree_from_json(j):
    if "leaf" in j:
        return Leaf(j["leaf"], text=j.get("text"), k=j.get("k"), parts=[tuple(p) for p in j["parts"]] if j.get("parts") else None)
    return Node(j["op"], [tree_from_json(k) for k in j["kids"]])


# ------------------------------------------------------------------ command lines

def maximal(cs):
    return [c for c in cs if not any(o != c and o.startswith(c) for o in cs)]


def word_for(leaf, beh, rng):
    """A complete word matched by `leaf` (None if impossible: probe without candidates)."""
    if leaf.kind == "lit":
        return leaf.text
    if leaf.kind == "any":
        return rng.choice(["anything", "x y", "--whatever", "c0x0"])
    if leaf.kind == "probe":
        cs = [c for c in cands_of(beh, leaf.k) if c and "*" not in c]
        return rng.choice(cs) if cs else None
    out = ""
    for kind, v in leaf.parts:
        if kind == "lit":
            out += v
        elif kind == "lits":
            out += rng.choice(v)
        else:
            # inside a word only candidates that are not a proper prefix of another one are used as complete values
            # (the shorter of two prefix-related candidates is C12's overlapping-alternatives territory)
            cs = maximal([c for c in cands_of(beh, v) if c])
            if not cs:
                return None
            out += rng.choice(cs)
    return out


def gen_lines(model, beh, rng, n):
    """Command lines: accepted walks, the same with one foreign word, x prefixes of every expected item at the cursor."""
    lines = []
    from .c17model import leaf_matches

    def cands(k):
        return cands_of(beh, k)
    for _ in range(n):
        state = None
        words = []
        steps = rng.weighted([(2, 0), (3, 1), (3, 2), (2, 3), (1, 5)])
        for _s in range(steps):
            exp = model.expected(state)
            if not exp:
                break
            leaf = rng.choice(exp)
            w = word_for(leaf, beh, rng)
            if w is None:
                break
            words.append(w)
            state = frozenset(l.pos for l in exp if leaf_matches(l, w, cands))
            if not state:
                break
        kind = "walk"
        roll = rng.below(20)
        if words and roll < 4:
            i = rng.below(len(words))
            words[i] = rng.choice(FOREIGN)
            kind = "foreign@%d/%d" % (i, len(words))
        elif len(words) >= 2 and roll < 7:
            # a word that merely EXTENDS, or is a proper prefix of, what was accepted there (never the last complete word, which is
            # the known `break 3` shape): acceptance must be by equality with a candidate, not by prefix
            i = rng.below(len(words) - 1)
            if roll < 6:
                words[i] = words[i] + rng.choice(["x", "zz", "0"])
                kind = "extended@%d/%d" % (i, len(words))
            elif len(words[i]) > 1:
                words[i] = words[i][:-1]
                kind = "truncated@%d/%d" % (i, len(words))
        elif len(words) >= 2 and roll < 11 and roll >= 9:
            # a word that is not EQUAL to anything expected there but would MATCH it as a shell pattern (`c1x?`, `c1*`): acceptance
            # must be by string equality, never by treating the typed word (or a candidate) as a glob pattern
            i = rng.below(len(words) - 1)
            w = words[i]
            if len(w) >= 2 and not any(ch in w for ch in "*?[]\\ "):
                words[i] = rng.choice([w[:-1] + "?", w[:-1] + "*", w[:-2] + "*", w[:-1] + "[" + w[-1] + "]"])
                kind = "globbed@%d/%d" % (i, len(words))
        elif len(words) >= 2 and roll < 9:
            # a candidate of ANOTHER command (preferably one accepted earlier on this line) where it is not expected: state left
            # over from an earlier command / an earlier completion in the same shell must not make it acceptable
            pool = [c for k2 in beh for c in cands_of(beh, k2) if c and "*" not in c and " " not in c]
            i = rng.below(len(words) - 1)
            others = [c for c in pool if c != words[i]]
            if others:
                prev = [w for w in words[:i] if w in others]
                words[i] = rng.choice(prev) if prev and rng.chance(2, 3) else rng.choice(others)
                kind = "othercand@%d/%d" % (i, len(words))
        # typed prefix
        exp = model.expected(state) if state is not None or not words else []
        prefix = ""
        if exp and rng.chance(4, 5):
            leaf = rng.choice(exp)
            w = word_for(leaf, beh, rng) or ""
            cut = rng.choice([0, len(w), rng.below(len(w) + 1), rng.below(len(w) + 1)])
            prefix = w[:cut]
            if rng.chance(1, 12):
                prefix += "zz"
            elif leaf.kind == "probe" and len(prefix) >= 2 and rng.chance(1, 6) and not any(ch in prefix for ch in "*?[]\\ "):
                # typed text that would MATCH candidates if it were ever read as a shell pattern, but that none of them starts with:
                # "only candidates extending the typed text are offered" means string prefix, not glob (top-level command points only)
                prefix = rng.choice([prefix[:-1] + "?", prefix[:-1] + "*", "*" + prefix[1:], prefix[:-1] + "[" + prefix[-1] + "]"])
        elif rng.chance(1, 3):
            prefix = rng.choice(["c", "-", "zz", "--o"])
        lines.append({"words": words, "prefix": prefix, "kind": kind})
    # dedupe, stable
    seen = set()
    out = []
    for ln in lines:
        key = json.dumps([ln["words"], ln["prefix"]])
        if key not in seen:
            seen.add(key)
            out.append(ln)
    return out


# ------------------------------------------------------------------ execution

def bash_quote(s):
    return "'" + s.replace("'", "'\\''") + "'"


def run_batch(text, name, beh, lines, wordbreaks, timeout=300, readline=None):
    """Compile the grammar with the real binary, source it into real bash, run all command lines.  Returns
    (compile result, per-line records [{invocations: [(k, argc, args...)], rc, reply: [...]}])."""
    d = tempfile.mkdtemp(prefix="vbash-", dir=proc.scratch_root())
    try:
        # the compile runs under the shim with canonical seams (zero random bytes, fixed clock/pid): whether the emitted script
        # depends on ambient state is C10's question; here one grammar must always mean one script, so that every finding replays
        cres = proc.run_case({"binary": "complgen", "argv": ["--bash", "g.bash", "g.usage"], "files": {"g.usage": text.encode("utf-8").decode("latin-1")},
                              "stdin": None, "stdout": "pipe", "roles": {"input": "g.usage", "dest": "g.bash"},
                              "plan": ["rand 0", "time 0", "pid 4242", "host canonical"], "env": {"LC_ALL": "C"}, "watch": ["g.bash"]}, timeout=60)
        if cres["exit"] != 0 or cres["files_after"].get("g.bash") is None:
            return {"exit": cres["exit"], "stderr": cres["stderr"]}, None
        with open(os.path.join(d, "g.bash"), "wb") as f:
            f.write(proc.dec(cres["files_after"]["g.bash"]))
        os.mkdir(os.path.join(d, "beh"))
        for k, b in beh.items():
            with open(os.path.join(d, "beh", "%s.out" % k), "w") as f:
                f.write(b["stdout"] + "X")
            with open(os.path.join(d, "beh", "%s.err" % k), "w") as f:
                f.write(b["stderr"] + "X")
            with open(os.path.join(d, "beh", "%s.rc" % k), "w") as f:
                f.write("%d\n" % b["rc"])
        sh = HARNESS_SH.replace("__CMDFN__", "_" + name)
        sh += "COMP_WORDBREAKS=%s\n" % bash_quote(wordbreaks)
        if readline == "ignore-case-on":
            # readline seam: the script asks `bind -v` for completion-ignore-case; a non-interactive bash always answers `off`, so the
            # simulator owns `bind` and answers the way an interactive shell with `set completion-ignore-case on` would.  The
            # generator's universe has no two items that differ only by case, so the expected results are the same as with `off`.
            sh += ("bind() { printf 'set bell-style audible\\nset completion-ignore-case on\\nset completion-map-case off\\n'"
                   "; printf 'set editing-mode emacs\\n'; }\n")
        sh += "source ./g.bash\n"
        for i, ln in enumerate(lines):
            ws = [name] + ln["words"] + [ln["prefix"]]
            sh += "__case %d %s\n" % (i, " ".join(bash_quote(w) for w in ws))
        with open(os.path.join(d, "h.sh"), "w") as f:
            f.write(sh)
        try:
            p = subprocess.run(["bash", "--norc", "--noprofile", "h.sh"], cwd=d, capture_output=True, env={"LC_ALL": "C", "PATH": "/usr/bin:/bin"}, timeout=timeout)
            timed_out = False
        except subprocess.TimeoutExpired:
            timed_out = True
        try:
            with open(os.path.join(d, "log"), "rb") as f:
                raw = f.read().decode("latin-1")
        except FileNotFoundError:
            raw = ""
        recs = {}
        cur = None
        for rec in raw.split(RS + "\n"):
            if not rec:
                continue
            f_ = rec.split(US)
            if f_[0] == "CASE":
                cur = int(f_[1])
                recs[cur] = {"inv": [], "rc": None, "reply": None}
            elif f_[0] == "INV" and cur is not None:
                recs[cur]["inv"].append([int(f_[1]), int(f_[2])] + f_[3:])
            elif f_[0] == "REPLY":
                n = int(f_[3])
                recs[int(f_[1])]["rc"] = int(f_[2])
                recs[int(f_[1])]["reply"] = f_[4:4 + n] if n else []
        return {"exit": 0, "timeout": timed_out}, [recs.get(i, {"inv": [], "rc": None, "reply": None}) for i in range(len(lines))]
    finally:
        shutil.rmtree(d, ignore_errors=True)


# ------------------------------------------------------------------ oracle

def check_line(model, case, beh, ln, rec, wordbreaks):
    """Returns (violation class or None, detail, probes-hit dict)."""
    probes = case["probes"]
    hits = {}
    if rec["reply"] is None:
        return "completion-did-not-finish", {"why": "no REPLY record (hang, crash or syntax error in the emitted script)"}, hits
    exp = expectation(model, beh, ln["words"], ln["prefix"], wordbreaks)
    if not exp["usable"]:
        return None, {"skipped": "point outside the generator's 1-unambiguity discipline"}, {"skipped": 1}
    v, detail = compare(exp, rec, probes, case["forbidden"])
    if v is None:
        if exp["matched"]:
            hits["matched_line"] = 1
            if exp["point"].get("in_word_probe"):
                hits["probe_in_word"] = 1
            if (exp["point"].get("lstar") or 0) > 0:
                hits["fallback_level>0"] = 1
            if "probe" in exp["point"].get("kinds", []):
                hits["top_level_probe_point"] = 1
        else:
            hits["unmatched_line"] = 1
        return None, detail, hits
    # known shape: the last complete word at a top-level command point is skipped (bash.rs `break 3`)
    if ln["words"]:
        alt = expectation(model, beh, ln["words"], ln["prefix"], wordbreaks, skip_last=True)
        if alt["usable"] and alt["matched"]:
            exp_pts = [l for l in model_expected_at(model, beh, ln["words"][:-1]) if l.kind == "probe" and [c for c in cands_of(beh, l.k) if c]]
            if exp_pts:
                alt["inv_allowed"] |= exp["inv_allowed"]   # the matching attempts on the skipped word did happen
                v2, _ = compare(alt, rec, probes, case["forbidden"])
                if v2 is None:
                    return "last-word-skipped-at-command-point", {"expected": summarise(exp), "observed": rec, "note":
                                                                   "observed completion equals the model's completion with the last complete word removed"}, hits
    return v, detail, hits


def model_expected_at(model, beh, words):
    from .c17model import leaf_matches

    def cands(k):
        return cands_of(beh, k)
    state = None
    for w in words:
        exp = model.expected(state)
        state = frozenset(l.pos for l in exp if leaf_matches(l, w, cands))
        if not state:
            return []
    return model.expected(state)


def summarise(exp):
    return {"matched": exp["matched"], "sound": sorted(exp.get("sound", [])), "required": sorted(exp.get("required", [])),
            "inv_allowed": sorted(map(list, exp["inv_allowed"])), "inv_required": [list(t) for t in exp["inv_required"]], "point": exp.get("point")}


def compare(exp, rec, probes, forbidden):
    # 1. invocations: never run where not expected; exactly that command; documented arguments
    for inv in rec["inv"]:
        k, argc, args = inv[0], inv[1], inv[2:]
        if k in forbidden:
            return "forbidden-command-ran", {"probe": k, "args": args, "why": "this command belongs to a definition that is not the one for bash"}
        deco = probes[k]["deco_args"] if k < len(probes) else []
        if argc != 2 + len(deco) or args[2:] != deco:
            return "wrong-argument-vector", {"probe": k, "argc": argc, "args": args, "expected_argc": 2 + len(deco), "expected_decoration": deco}
        if (k, args[0], args[1]) not in exp["inv_allowed"]:
            return "command-ran-where-not-expected-or-with-wrong-arguments", {"probe": k, "args": args[:2], "allowed": sorted(map(list, exp["inv_allowed"]))}
    reply = rec["reply"]
    if not exp["matched"]:
        if reply:
            return "candidates-offered-after-unmatched-words", {"reply": reply}
        return None, {}
    have = set((i[0], i[2], i[3]) for i in rec["inv"])
    for t in exp["inv_required"]:
        if t not in have:
            return "expected-command-not-run", {"missing": list(t), "logged": [list(x) for x in sorted(have)]}
    # 2. candidates
    got = set(reply)
    opt = exp.get("optional_exact", set())
    extra = [c for c in got if c not in exp["sound"] and c not in opt]
    if extra:
        return "unexpected-candidate", {"extra": sorted(extra), "sound": sorted(exp["sound"]), "reply": sorted(got)}
    missing = [c for c in exp["required"] if c not in got and c not in opt]
    if missing:
        return "candidate-missing", {"missing": sorted(missing), "reply": sorted(got), "required": sorted(exp["required"])}
    return None, {}


# ------------------------------------------------------------------ per-grammar worker

def run_grammar(args):
    gid, seed, nlines, nbatches = args
    rng = Rng(seed, "c17/grammar/%d" % gid)
    case = gen_case(rng.sub("tree"))
    model = Model(case["root"])
    out = {"gid": gid, "completions": 0, "invocations": 0, "violations": [], "hits": {}, "beh_kinds": {}, "compile_fail": None, "sample": None,
           "distinct": 0, "bash_procs": 0}
    for b in range(nbatches):
        br = rng.sub("batch/%d" % b)
        in_word = set(v for l in model.leaves if l.kind == "sw" for kind_, v in l.parts if kind_ == "probe")
        beh = assign_behaviours(br.sub("beh"), len(case["probes"]), in_word)
        wordbreaks = br.choice([DEFAULT_WORDBREAKS, DEFAULT_WORDBREAKS, "", " \t\n"])
        lines = gen_lines(model, beh, br.sub("lines"), nlines)
        readline = br.sub("readline").choice([None, None, None, "ignore-case-on"])
        if readline and any(bh["kind"] == "dash" for bh in beh.values()):
            # `dash` plays the candidates -n, -e, -E: the only two items of the universe that differ only by case.  With
            # completion-ignore-case on, typed `-E` legitimately offers `-e` too (first thorough run with the seam: a false
            # `unexpected-candidate`), and the oracle is deliberately not made case-aware -- so this pairing is not drawn.
            readline = None
        comp, recs = run_batch(case["text"], case["name"], beh, lines, wordbreaks, readline=readline)
        out["bash_procs"] += 1
        out["hits"]["readline:" + (readline or "non-interactive-default")] = out["hits"].get("readline:" + (readline or "non-interactive-default"), 0) + 1
        if recs is None:
            out["compile_fail"] = comp
            return out
        for k, bh in beh.items():
            out["beh_kinds"][bh["kind"]] = out["beh_kinds"].get(bh["kind"], 0) + 1
        seen = set()
        for ln, rec in zip(lines, recs):
            out["completions"] += 1
            out["invocations"] += len(rec["inv"])
            v, detail, hits = check_line(model, case, beh, ln, rec, wordbreaks)
            for h, n in hits.items():
                out["hits"][h] = out["hits"].get(h, 0) + n
            out["distinct"] += 1
            if v:
                kinds = sorted(set(beh[i[0]]["kind"] for i in rec["inv"] if i[0] in beh))
                key = v
                if v in seen:
                    continue
                seen.add(v)
                out["violations"].append({"class": v, "key": key, "detail": detail, "grammar": case["text"], "name": case["name"],
                                          "tree": tree_to_json(case["root"]), "probes": case["probes"], "forbidden": case["forbidden"],
                                          "behaviours": {str(k): bh for k, bh in beh.items()}, "wordbreaks": wordbreaks, "readline": readline, "line": ln, "observed": rec,
                                          "behaviour_kinds_involved": kinds})
        if out["sample"] is None and lines:
            i = br.below(len(lines))
            out["sample"] = {"grammar": case["text"], "words": lines[i]["words"], "prefix": lines[i]["prefix"], "invocations": recs[i]["inv"][:6],
                             "COMPREPLY": (recs[i]["reply"] or [])[:8], "behaviours": {str(k): bh["kind"] for k, bh in beh.items()}}
    return out


# ------------------------------------------------------------------ replay / minimise

def reproduce(v):
    root = tree_from_json(v["tree"])
    model = Model(root)
    case = {"probes": v["probes"], "forbidden": v["forbidden"]}
    beh = {int(k): b for k, b in v["behaviours"].items()}
    comp, recs = run_batch(v["grammar"], v["name"], beh, [v["line"]], v["wordbreaks"], readline=v.get("readline"))
    if recs is None:
        return None, {"compile": comp}
    cls, detail, _ = check_line(model, case, beh, v["line"], recs[0], v["wordbreaks"])
    return cls, {"detail": detail, "observed": recs[0]}


def minimise(v):
    """Shrink: command-line words, probe behaviours (towards 'plain' single candidates) -- the grammar tree is kept
    (text and model must stay in lock-step; the generator keeps the tree, shrinking it is done by re-printing)."""
    cur = json.loads(json.dumps(v))
    cls = v["class"]

    def holds(c):
        return reproduce(c)[0] == cls

    # drop leading/trailing words is not meaningful for a walk; try shortening the typed prefix
    for cut in (0, 1):
        cand = json.loads(json.dumps(cur))
        cand["line"]["prefix"] = cur["line"]["prefix"][:cut]
        if cand["line"]["prefix"] != cur["line"]["prefix"] and holds(cand):
            cur = cand
            break
    # behaviours back to benign
    for k, b in list(cur["behaviours"].items()):
        if b["stderr"] or b["rc"]:
            cand = json.loads(json.dumps(cur))
            cand["behaviours"][k]["stderr"] = ""
            cand["behaviours"][k]["rc"] = 0
            if holds(cand):
                cur = cand
        lines = cur["behaviours"][k]["stdout"].split("\n")[:-1]
        i = 0
        while len(lines) > 1 and i < len(lines):
            cand = json.loads(json.dumps(cur))
            nl = lines[:i] + lines[i + 1:] if len(lines) < 50 else lines[:len(lines) // 2]
            cand["behaviours"][k]["stdout"] = "".join(x + "\n" for x in nl)
            if holds(cand):
                cur = cand
                lines = nl
            else:
                i += 1
                if len(lines) >= 50:
                    break
    # tree shrinking: replace subtrees by one of their children / drop alternatives, re-print, keep if the class persists
    changed = True
    rounds = 0
    while changed and rounds < 6:
        changed = False
        rounds += 1
        tree = cur["tree"]
        for path, alt in tree_reductions(tree):
            cand = json.loads(json.dumps(cur))
            cand["tree"] = alt
            root = tree_from_json(alt)
            cmdtext = {k: command_text(k, info) for k, info in enumerate(cur["probes"])}
            stmts = ["%s %s;" % (cur["name"], show(root, cmdtext, {}))]
            cand["grammar"] = "\n".join(stmts) + "\n"
            cand["forbidden"] = []
            try:
                if holds(cand):
                    cur = cand
                    changed = True
                    break
            except Exception:
                continue
    got, detail = reproduce(cur)
    cur["class"] = got or cls
    cur["replayed"] = detail
    return cur


def tree_reductions(tree):
    """Yield (path, reduced tree) candidates: each inner node replaced by each of its children; each n-ary node with one child dropped."""
    def rec(n):
        if "leaf" in n:
            return
        for i, k in enumerate(n["kids"]):
            yield k  # replace n by child i
            if len(n["kids"]) > 1 and n["op"] in ("seq", "alt", "fb"):
                yield {"op": n["op"], "kids": n["kids"][:i] + n["kids"][i + 1:]} if len(n["kids"]) > 2 else (n["kids"][1 - i])
        for i, k in enumerate(n["kids"]):
            for sub in rec(k):
                yield {"op": n["op"], "kids": n["kids"][:i] + [sub] + n["kids"][i + 1:]}
    for alt in rec(tree):
        yield None, alt


def replay(payload):
    return reproduce(payload)


# ------------------------------------------------------------------ setup self-check, determinism

def setup_check():
    r = subprocess.run(["bash", "--version"], capture_output=True, text=True)
    if r.returncode != 0 or "version 5" not in r.stdout and "version 4" not in r.stdout:
        raise HarnessError("bash >= 4 is required for the bashsim engine")
    log("bash:", r.stdout.splitlines()[0])


def determinism_probe(seed):
    a = run_grammar((0, seed, 8, 1))
    b = run_grammar((0, seed, 8, 1))
    for x in (a, b):
        x.pop("sample", None)
    return json.dumps(a, sort_keys=True, default=str) == json.dumps(b, sort_keys=True, default=str)


# ------------------------------------------------------------------ tier driver

def main(seed, tier):
    t = common.Timer()
    setup_check()
    if not determinism_probe(seed):
        raise HarnessError("C17 determinism self-check failed (same seed, different invocation history)")
    quick = tier == "quick"
    ngram = 48 if quick else 450
    nlines = 14 if quick else 28
    nbatches = 1 if quick else 2
    jobs = [(g, seed, nlines, nbatches) for g in range(ngram)]
    agg = {"completions": 0, "invocations": 0, "bash_procs": 0, "grammars_ok": 0, "compile_fail": 0}
    hits, kinds = {}, {}
    violations, samples, compile_fails = [], [], []
    for out in common.pmap(run_grammar, jobs):
        if out["compile_fail"] is not None:
            agg["compile_fail"] += 1
            compile_fails.append(out["compile_fail"])
            continue
        agg["grammars_ok"] += 1
        for k in ("completions", "invocations", "bash_procs"):
            agg[k] += out[k]
        for h, n in out["hits"].items():
            hits[h] = hits.get(h, 0) + n
        for h, n in out["beh_kinds"].items():
            kinds[h] = kinds.get(h, 0) + n
        violations.extend(out["violations"])
        if out["sample"] and len(samples) < 5 and out["gid"] % 9 == 0:
            samples.append(out["sample"])
    if agg["compile_fail"] > ngram // 3:
        raise HarnessError("too many generated grammars rejected by complgen (%d of %d): %r" % (agg["compile_fail"], ngram, compile_fails[:2]))
    new, known = runner.triage("C17", seed, violations, minimise, lambda p: reproduce(p)[0], max_minimise=4)
    stuck = [p for p in ("matched_line", "unmatched_line", "probe_in_word", "fallback_level>0", "top_level_probe_point") if not hits.get(p)]
    coverage = {
        "evaluations": agg["completions"],
        "distinct_nontrivial": hits.get("matched_line", 0) + hits.get("unmatched_line", 0),
        "rule": "one evaluation = one invocation of the emitted completion function in real bash for one (grammar, probe behaviours, command line, "
                "COMP_WORDBREAKS); grammars are seeded trees over unique literals, probe commands (inline, via definitions, via @bash "
                "specialisations shadowing plain/other-shell definitions), <_>, within-word shapes LIT PROBE / LIT PROBE LIT PROBE / PROBE LIT PROBE, "
                "under sequence, |, ||, [], ...; command lines are model walks, walks with one foreign word, x prefixes of expected items. "
                "distinct_nontrivial = distinct command lines judged against the model (lines at points outside the 1-unambiguity discipline are skipped and not counted).",
        "samples": samples or [{"note": "none"}],
        "grammars": agg["grammars_ok"],
        "grammars_rejected_by_complgen": agg["compile_fail"],
        "bash_processes": agg["bash_procs"],
        "probe_invocations_logged": agg["invocations"],
        "peer_behaviours_played": dict(sorted(kinds.items())),
        "probes": hits,
        "probes_stuck_at_zero": stuck,
        "runs_per_hour": int(agg["completions"] / max(t.s(), 0.001) * 3600),
        "known_findings_matched": known,
        "real_code": "complgen binary (bash emitter) built from /repo's working tree; real bash 5.2 executing the emitted script",
        "stubbed": "_get_comp_words_by_ref (3-line stub named by the property); every external command (simulator-owned __probe)",
    }
    common.write_evidence("C17", tier, seed, "exploration", coverage, t.s(), new, [
        "grammars are 1-unambiguous per point by construction; regions where union semantics and the script's matching priority differ belong to C09/C12",
        "candidates equal to the typed text, blank lines, unterminated last lines, CR-LF, NULs and glob characters in candidates are played but not judged",
        "|| levels of commands are not judged (C01/C02): candidate checks are level-agnostic as described in DESIGN.md",
    ])
    log("C17: grammars=%d completions=%d invocations=%d violations(new)=%d known=%d wall=%.1fs" % (
        agg["grammars_ok"], agg["completions"], agg["invocations"], new, known, t.s()))
    return 1 if new else 0
