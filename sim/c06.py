"""C06 -- the compiler never crashes or hangs: script + exit 0, or diagnostic + exit 1.

Engine: procsim (DESIGN.md 2.1, 3/C06).  The real binary, every I/O system
call behind the LD_PRELOAD seam, single-fault enumeration over every position
of the fault-free trace plus sampled double faults.
"""
import hashlib
import json
import os
import re
import time

from . import build, common, gram, proc
from .prng import Rng

PROP = "C06"
SLOW_REFERENCE_S = 5.0
SENTINEL = "#!sentinel: previous content of the destination\nkeep me\n"
DEST = "out.script"
INPUT = "in.usage"
DOT_REGEX = "r.dot"
DOT_DFA = "d.dot"

HARD_OPEN_IN = ["ENOENT", "EACCES", "EMFILE", "ENFILE", "EISDIR", "ENOMEM"]
HARD_OPEN_OUT = ["EACCES", "EROFS", "ENOSPC", "EMFILE", "EISDIR"]
HARD_READ = ["EIO"]
HARD_WRITE = ["ENOSPC", "EIO", "EDQUOT", "EFBIG", "EPIPE", "EAGAIN"]
FAULT_ROLES = ("input", "dest", "stderr", "dotregex", "dotdfa")


# ------------------------------------------------------------------ workload

def make_items(seed, tier):
    """Seeded workload: list of item dicts (grammar text latin-1, shell, modes)."""
    rng = Rng(seed, "c06/workload")
    quick = tier == "quick"
    items = []

    def add(kind, text, r, **over):
        it = {
            "kind": kind, "grammar": text,
            "shell": over.get("shell") or r.choice(gram.SHELLS),
            "input_mode": over.get("input_mode") or r.weighted([(3, "file"), (1, "stdin")]),
            "dest_mode": over.get("dest_mode") or r.weighted([(2, "newfile"), (3, "existing"), (2, "stdout_pipe"), (1, "stdout_file")]),
            "dots": over.get("dots") or r.weighted([(6, "none"), (1, "regex"), (1, "dfa"), (1, "both")]),
            "fault_mode": over.get("fault_mode", "enumerate"),
            # what isatty() answers for stdout/stderr is configuration too (colour, paging, width logic must not matter)
            "tty": over.get("tty") if over.get("tty") is not None else r.weighted([(5, ""), (2, "2"), (1, "12")]),
        }
        it["id"] = len(items)
        items.append(it)

    # the bundled examples, all four shells (quick: the 1.5 MB mygit scripts get sampled, not enumerated, fault positions
    # except for one seeded shell -- process creation on this VM is ~70 runs/s in total, see DESIGN.md)
    full_git = rng.sub("ex/gitshell").choice(gram.SHELLS)
    for name in ("hello.usage", "mygrep.usage", "mygit.usage"):
        with open(os.path.join(build.REPO, "examples", name), "rb") as f:
            text = proc.enc(f.read())
        for sh in gram.SHELLS:
            r = rng.sub("ex/%s/%s" % (name, sh))
            fm = "enumerate"
            if quick and name == "mygit.usage":
                fm = "sample"     # quick: the 1.5 MB scripts get sampled fault positions only (mygrep is the enumerated multi-chunk example)
            add("example:" + name, text, r, shell=sh, dots="none" if name != "hello.usage" else ("both" if sh == "bash" or not quick else "none"),
                fault_mode=fm)
    # one big example with dot files (sampled dot-file fault positions)
    with open(os.path.join(build.REPO, "examples", "mygrep.usage"), "rb") as f:
        add("example:mygrep+dots", proc.enc(f.read()), rng.sub("ex/dots"), shell="bash", dots="both", dest_mode="existing")

    n_valid = 14 if quick else 100
    n_mistake = len(gram.MISTAKE_KINDS) if quick else 4 * len(gram.MISTAKE_KINDS)
    n_warn = 6 if quick else 40
    n_mut = 150 if quick else 2500
    n_soup = 30 if quick else 400

    for i in range(n_valid):
        r = rng.sub("valid/%d" % i)
        size = r.weighted([(3, 4), (4, 10), (2, 25), (1, 60)])
        add("valid", gram.gen_grammar(r, size), r)
    for i in range(2 if quick else 12):
        r = rng.sub("big/%d" % i)
        add("valid-big", gram.gen_big_grammar(r), r)
    for i in range(n_mistake):
        r = rng.sub("mistake/%d" % i)
        base = gram.gen_grammar(r, r.range(2, 10))
        kind, text = gram.plant_mistake(r, base, gram.MISTAKE_KINDS[i % len(gram.MISTAKE_KINDS)])
        add("mistake:" + kind, text, r)
    for i in range(n_warn):
        r = rng.sub("warn/%d" % i)
        base = gram.gen_grammar(r, r.range(2, 10))
        add("warning", gram.plant_warning(r, base), r)
    # many warnings at once (a threshold on their number must not change the outcome)
    for i in range(1 if quick else 4):
        r = rng.sub("manywarn/%d" % i)
        n = r.range(12, 40)
        text = "cmd " + " | ".join("w%d <UNDEF%d>" % (j, j) for j in range(n)) + ";\n" + "".join("<UNUSED%d> = x%d;\n" % (j, j) for j in range(n))
        add("warning-many", text, r, dots="none")
    # hand-written unusual-but-plausible shapes, every shell, fault-free + sampled faults
    for name, text in gram.shape_corpus():
        for sh in (gram.SHELLS if not quick else [rng.sub("shape/" + name).choice(gram.SHELLS)]):
            add("shape:" + name, text, rng.sub("shape/%s/%s" % (name, sh)), shell=sh, fault_mode="sample", dots="none")
    # the repository's own test inputs (unit tests, e2e): the authors' corner cases, fault-free + sampled faults
    corpus = gram.repo_test_grammars(build.REPO)
    for i, text in enumerate(corpus):
        r = rng.sub("repo-test/%d" % i)
        try:
            enc_text = text.encode("utf-8").decode("latin-1")
        except UnicodeError:
            continue
        if quick and i % 3 != (seed % 3):
            continue
        add("repo-test", enc_text, r, fault_mode="sample" if not quick else "none", dots="none")
    # unusual command names on every shell, file destination (a late rejection must not touch it)
    for nm in ("it's", "c++", "a:b", "k=v", "50%", "x@y", "~t", "a,b", "q?", "$c", "`d`", "a&b", "#h", "!e", "*s", "^c", "n.a.m.e", "-dash"):
        for sh in gram.SHELLS:
            add("shape:command-name", "%s sub (a | b) --o=(x | y) {{{ echo z }}};\n" % nm, rng.sub("name/%s/%s" % (nm, sh)), shell=sh,
                fault_mode="none", dots="none", dest_mode="existing", input_mode="file")
    # input dimension only (fault-free + a few sampled faults): structure-aware mutations, token soups
    for i in range(n_mut):
        r = rng.sub("mut/%d" % i)
        if r.chance(1, 6):
            with open(os.path.join(build.REPO, "examples", r.choice(["hello.usage", "mygrep.usage", "mygit.usage"])), "rb") as f:
                base = proc.enc(f.read())
        else:
            base = gram.gen_grammar(r, r.range(2, 14))
            if r.chance(1, 3):
                base = gram.plant_warning(r, base)
        add("mutated", gram.mutate(r, base), r, fault_mode="sample")
    for i in range(n_soup):
        r = rng.sub("soup/%d" % i)
        add("soup", gram.token_soup(r), r, fault_mode="sample")
    for name, data in gram.stress_corpus():
        r = rng.sub("stress/" + name)
        add("stress:" + name, proc.enc(data), r, fault_mode="none", dest_mode="existing", input_mode="file", dots="none",
            tty="2" if name.startswith("tty_") else None)
    return items


def base_case(item):
    shell = item["shell"]
    dest_arg = DEST if item["dest_mode"] in ("newfile", "existing") else "-"
    in_arg = INPUT if item["input_mode"] == "file" else "-"
    argv = ["--" + shell, dest_arg]
    roles = {"input": in_arg, "dest": dest_arg}
    watch = [DEST]
    if item["dots"] in ("regex", "both"):
        argv += ["--regex", DOT_REGEX]
        roles["dotregex"] = DOT_REGEX
        watch.append(DOT_REGEX)
    if item["dots"] in ("dfa", "both"):
        argv += ["--dfa", DOT_DFA]
        roles["dotdfa"] = DOT_DFA
        watch.append(DOT_DFA)
    argv.append(in_arg)
    files = {}
    stdin = None
    if item["input_mode"] == "file":
        files[INPUT] = item["grammar"]
    else:
        stdin = item["grammar"]
    if item["dest_mode"] == "existing":
        files[DEST] = SENTINEL
    return {
        "binary": "complgen", "argv": argv, "files": files, "stdin": stdin,
        "stdout": "file" if item["dest_mode"] == "stdout_file" else "pipe",
        "roles": roles, "plan": [], "env": {"LC_ALL": "C"}, "stack_kb": 8192, "watch": watch,
        "plan_prefix": ["tty %s 1" % ch for ch in item.get("tty", "")],
    }


# ------------------------------------------------------------------ oracle

def dest_content(item, res):
    if item["dest_mode"] in ("newfile", "existing"):
        return res["files_after"].get(DEST)
    return res["stdout"]


def dest_untouched(item, res):
    m = item["dest_mode"]
    if m == "newfile":
        return res["files_after"].get(DEST) is None
    if m == "existing":
        return res["files_after"].get(DEST) == SENTINEL and res["inode_before"].get(DEST) == res["inode_after"].get(DEST)
    return res["stdout"] == ""


def exit_desc(res):
    if res["timeout"]:
        return "timeout"
    rc = res["exit"]
    if rc is not None and rc < 0:
        return "signal%d" % -rc
    return "exit%s" % rc


PANIC_RE = re.compile(r"panicked at ([^\n]*?):(\d+):\d+:\n([^\n]*)")


def bad_status(res):
    """Names the abnormal termination precisely, so that minimisation and the known-findings file never confuse
    one crash with another: panic site, stack overflow, or the raw status."""
    rc = res["exit"]
    err = res["stderr"]
    if rc == 101:
        m = PANIC_RE.search(err)
        if m:
            if "failed printing to stderr" in m.group(3):
                return "panic:failed-printing-to-stderr"
            loc = m.group(1)
            if "/registry/src/" in loc:
                loc = loc.split("/registry/src/", 1)[1].split("/", 1)[-1]      # <crate>-<version>/src/...
            elif loc.startswith("/rustc"):
                loc = loc.split("/library/")[-1]
            elif "src/" in loc:
                loc = loc[loc.index("src/"):]
            return "panic:%s:%s" % (loc, m.group(2))
        return "panic:unknown-site"
    if rc == -6 and "overflowed its stack" in err:
        return "stack-overflow"
    return "bad-status:" + exit_desc(res)


def judge_reference(item, R):
    """Fault-free run: ARM0 or ARM1, nothing else."""
    if R["timeout"]:
        return "hang"
    if R["exit"] == 0:
        c = dest_content(item, R)
        if not c:
            return "exit0-empty-script"
        if not c.endswith("\n"):
            return "exit0-truncated-script"
        return None
    if R["exit"] == 1:
        if R["stderr"] == "":
            return "exit1-no-diagnostic"
        if not dest_untouched(item, R):
            return "exit1-destination-touched"
        return None
    return bad_status(R)


def classify_fired(evs):
    """Which classes of fault actually fired (from the event log)."""
    c = {"short": 0, "soft": 0, "hard_input": 0, "hard_open_dest": 0, "hard_write_dest": 0, "hard_stderr": 0, "hard_dot": 0}
    for ev in evs:
        inj = ev.get("inj")
        role = ev.get("role")
        call = ev["call"]
        if inj == "short":
            c["short"] += 1
        elif inj == "eintr" or call in ("statx", "fstat", "lseek"):
            c["soft"] += 1
        elif inj == "err":
            if role == "input":
                c["hard_input"] += 1
            elif role == "dest" and call == "open":
                c["hard_open_dest"] += 1
            elif role == "dest":
                c["hard_write_dest"] += 1
            elif role == "stderr":
                c["hard_stderr"] += 1
            elif role in ("dotregex", "dotdfa"):
                c["hard_dot"] += 1
            else:
                c["hard_input"] += 1
    return c


def judge_faulted(item, R, res):
    """Returns None or a violation-class string.  DESIGN.md C06 rules 1-4."""
    evs = proc.fired(res["events"])
    fc = classify_fired(evs)
    nfired = len(evs)
    if res["timeout"]:
        return "hang-after-fault"
    # liveness: once the last fault has fired, finish within a generous linear bound
    if nfired:
        last = max(i for i, ev in enumerate(res["events"]) if ev.get("inj", "-") not in ("-", "short-noop"))
        after = len(res["events"]) - 1 - last
        if after > 2 * len(R["events"]) + 16 * nfired + 64:
            return "too-many-steps-after-fault"
    rc = res["exit"]
    arm0 = rc == 0 and R["exit"] == 0 and dest_content(item, res) == dest_content(item, R)
    if nfired == 0 or (fc["short"] == nfired):
        # nothing fired, or only short reads/writes (successes, not errors): must equal the reference
        same = (rc == R["exit"] and res["stdout"] == R["stdout"] and res["stderr"] == R["stderr"]
                and res["files_after"] == R["files_after"])
        if not same:
            return "short-io-changes-outcome:%s->%s" % (exit_desc(R), exit_desc(res))
        return None
    if arm0:
        return None
    if rc == 0:
        if R["exit"] == 0:
            return "exit0-with-incomplete-script"
        return "exit0-on-rejected-grammar"
    if rc != 1:
        return bad_status(res)
    # exit 1: which ARM1 clauses still apply?
    hard_any = fc["hard_input"] + fc["hard_open_dest"] + fc["hard_write_dest"] + fc["hard_stderr"] + fc["hard_dot"]
    if R["exit"] == 0 and fc["hard_stderr"] and hard_any == fc["hard_stderr"] :
        # rule 4: only stderr failed while printing warnings -> success must stay success
        return "warning-write-failure-turned-success-into-failure"
    if res["stderr"] == "" and not fc["hard_stderr"]:
        return "exit1-no-diagnostic"
    waive_untouched = fc["hard_write_dest"] > 0 or fc["hard_dot"] > 0
    if not waive_untouched and not dest_untouched(item, res):
        return "exit1-destination-touched"
    if R["exit"] == 0 and hard_any == 0:
        # only EINTR / size-hint failures fired: reporting them (exit 1 + diagnostic, destination untouched) is
        # within the statement; anything else was caught above
        return None
    return None


# ------------------------------------------------------------------ fault plans

def positions(R):
    """Fault positions of the reference trace: (role, class, nth, requested-bytes)."""
    out = []
    for ev in R["events"]:
        role = ev.get("role")
        if role not in FAULT_ROLES and not (role == "stdout"):
            continue
        call = ev["call"]
        cls = {"open": "open", "read": "read", "readv": "read", "pread": "read", "write": "write", "writev": "write",
               "pwrite": "write", "statx": "stat", "fstat": "stat", "lseek": "seek"}.get(call)
        if cls is None or "nth" not in ev:
            continue
        out.append((role, cls, int(ev["nth"]), int(ev.get("req", "0") or 0)))
    return out


def single_fault_plans(pos, rng, full):
    role, cls, nth, req = pos
    plans = []
    base = "fault %s %s %d " % (role, cls, nth)
    if cls == "open":
        plans.append([base + "eintr"])
        errs = HARD_OPEN_IN if role == "input" else HARD_OPEN_OUT
        for e in (errs if full else rng.sample(errs, 2)):
            plans.append([base + "err " + e])
    elif cls == "read":
        plans.append([base + "eintr"])
        plans.append([base + "eintr", "fault %s %s %d eintr" % (role, cls, nth + 1), "fault %s %s %d eintr" % (role, cls, nth + 2)])
        if req > 1:
            for n in sorted(set([1, req - 1, rng.range(1, req - 1)])):
                plans.append([base + "short %d" % n])
        for e in HARD_READ:
            plans.append([base + "err " + e])
        if req > 1:
            plans.append([base + "short %d" % rng.range(1, req - 1), "fault %s %s %d err EIO" % (role, cls, nth + 1)])
    elif cls == "write":
        plans.append([base + "eintr"])
        if req > 1:
            for n in sorted(set([1, req - 1, rng.range(1, req - 1)])):
                plans.append([base + "short %d" % n])
        for e in (HARD_WRITE if full else rng.sample(HARD_WRITE, 3)):
            plans.append([base + "err " + e])
        if req > 1:
            plans.append([base + "short %d" % rng.range(1, req - 1), "fault %s %s %d err %s" % (role, cls, nth + 1, rng.choice(HARD_WRITE))])
    elif cls in ("stat", "seek"):
        plans.append([base + "err " + rng.choice(["EIO", "EINVAL", "ESPIPE"])])
    return plans


def sampled_positions(poss, rng, limit):
    """For roles with very many positions (dot files): first, last, around every 4 KiB, plus PRNG picks."""
    if len(poss) <= limit:
        return poss
    pick = {0, 1, len(poss) - 1, len(poss) - 2}
    acc = 0
    for i, p in enumerate(poss):
        acc += p[3]
        if acc >= 4096:
            pick.update((i - 1, i, i + 1))
            acc = 0
        if len(pick) > limit // 2:
            break
    while len(pick) < limit:
        pick.add(rng.below(len(poss)))
    return [poss[i] for i in sorted(pick) if 0 <= i < len(poss)]


def make_plans(item, R, rng, tier):
    full = tier != "quick"
    poss = positions(R)
    by_role = {}
    for p in poss:
        by_role.setdefault(p[0], []).append(p)
    plans = []
    mode = item["fault_mode"]
    if mode == "none":
        return plans
    if mode == "sample":
        # a handful of single faults at PRNG-chosen positions
        for p in rng.sample(poss, min(len(poss), 3)):
            cand = single_fault_plans(p, rng, False)
            plans.append(rng.choice(cand))
        return plans
    for role, rp in by_role.items():
        lim = 64 if role in ("input", "dest", "stderr", "stdout") else (5 if not full else 160)
        if not full and len(rp) > 64:
            lim = 40
        for p in sampled_positions(rp, rng.sub("pos/" + role), lim):
            plans.extend(single_fault_plans(p, rng, full))
    # persistent hard failure from the first / from the last write on: a retry loop that never gives up shows as a hang
    for role in ("dest", "stderr"):
        rp = [p for p in by_role.get(role, []) if p[1] == "write"]
        if rp:
            for p in {rp[0], rp[-1]}:
                plans.append(["fault %s write %d errfrom %s" % (role, p[2], rng.choice(HARD_WRITE))])
    rp = [p for p in by_role.get("input", []) if p[1] == "read"]
    if rp:
        plans.append(["fault input read %d errfrom EIO" % rp[0][2]])
    # sampled double faults: one entry from each of two different positions
    singles = [pl for pl in plans if len(pl) == 1]
    ndouble = min(len(singles), 6 if not full else 60)
    for _ in range(ndouble):
        a = rng.choice(singles)
        b = rng.choice(singles)
        if a[0].split()[1:4] != b[0].split()[1:4]:
            plans.append([a[0], b[0]])
    return plans


# ------------------------------------------------------------------ per-item worker

def strip_res(res):
    return {k: res[k] for k in ("exit", "timeout", "stdout", "stderr", "files_after")} | {"raw_log": res["raw_log"]}


def violation_key(item, cls, plan):
    """Stable identification of a violation for the known-findings file: class + site.
    With a fault plan the site is the (role/class/kind) of the essential plan entries; without one (input dimension)
    it is the stress-corpus item name, or a digest of the grammar text."""
    cls = cls.split(":")[0] if cls.startswith("short-io") else cls
    if plan:
        sites = []
        for p in plan:
            parts = p.split()
            sites.append("%s/%s/%s" % (parts[1], parts[2], parts[4]))
        return "%s@%s" % (cls, "+".join(sorted(set(sites))))
    if item["kind"].startswith("stress:") or item["kind"].startswith("mistake:"):
        return "%s@%s" % (cls, item["kind"])
    if cls.startswith("panic:"):
        return "%s@input" % cls
    return "%s@grammar:%s" % (cls, hashlib.sha256(item["grammar"].encode("latin-1", "replace")).hexdigest()[:12])


def essential_plan(item, case, R, plan, cls):
    """Reduce a multi-entry plan to the entries needed for the same violation class (cheap, in the worker), so that
    double-fault samples of a single-fault violation do not show up as separate findings."""
    if len(plan) <= 1:
        return plan
    for i in range(len(plan)):
        sub = plan[:i] + plan[i + 1:]
        c = dict(case)
        c["plan"] = sub
        res = proc.run_case(c)
        if judge_faulted(item, R, res) == cls:
            return essential_plan(item, case, R, sub, cls)
    return plan


def run_item(args):
    item, seed, tier = args
    rng = Rng(seed, "c06/item/%d" % item["id"])
    case = base_case(item)
    t0 = time.time()
    R = proc.run_case(case)
    ref_wall = time.time() - t0
    if ref_wall > SLOW_REFERENCE_S and item["fault_mode"] == "enumerate":
        # a fault-free run this slow (the largest bundled example takes 0.2 s) is reported as an anomaly; enumerating hundreds
        # of fault positions over it would stall the whole check, so its fault positions are sampled instead
        item = dict(item, fault_mode="sample")
    out = {"id": item["id"], "kind": item["kind"], "runs": 1, "slow_reference": int(ref_wall > SLOW_REFERENCE_S), "violations": [], "fired": {}, "configured": {}, "probes": {},
           "steps": len(R["events"]), "ref_exit": exit_desc(R), "plans": 0, "inside": 0, "after": 0, "cases": []}
    pr = out["probes"]
    v = judge_reference(item, R)
    dc = dest_content(item, R) or ""
    nwrites_dest = sum(1 for ev in R["events"] if ev.get("role") in ("dest", "stdout") and ev["call"].startswith("write") and item["dest_mode"] != "x")
    pr["multi_chunk_script"] = int(R["exit"] == 0 and len(dc) > 8192)
    pr["single_chunk_script"] = int(R["exit"] == 0 and 0 < len(dc) <= 8192)
    pr["warning_then_script"] = int(R["exit"] == 0 and R["stderr"] != "")
    pr["dest_preexisting"] = int(item["dest_mode"] == "existing")
    pr["rejected_grammar"] = int(R["exit"] == 1)
    pr["dot_before_error"] = int(R["exit"] == 1 and any((R["files_after"].get(n) or "") != "" for n in (DOT_REGEX, DOT_DFA)))
    pr["stdin_input"] = int(item["input_mode"] == "stdin")
    pr["stdout_dest"] = int(item["dest_mode"].startswith("stdout"))
    if v:
        out["violations"].append({"class": v, "key": violation_key(item, v, []), "item": item, "plan": [], "case": case,
                                  "observed": strip_res(R), "expected": "ARM0 (exit 0 + complete script) or ARM1 (exit 1 + diagnostic + destination untouched)"})
        return out
    if R["exit"] == 1 and not item["kind"].startswith("stress:"):
        # configuration sweep for rejected inputs: "nothing written to the destination, an existing file left untouched" must hold
        # for a destination FILE whatever mode the item drew (a destination opened before the last validation stage shows
        # only for the one mistake kind that stage rejects, and only with a file destination)
        for dm in ("existing", "newfile"):
            if dm == item["dest_mode"]:
                continue
            it2 = dict(item, dest_mode=dm)
            R2 = proc.run_case(base_case(it2))
            out["runs"] += 1
            pr["dest_sweep_runs"] = pr.get("dest_sweep_runs", 0) + 1
            v2 = judge_reference(it2, R2)
            if v2:
                out["violations"].append({"class": v2, "key": violation_key(it2, v2, []), "item": it2, "plan": [], "case": base_case(it2),
                                          "observed": strip_res(R2), "expected": "ARM1 (exit 1 + diagnostic + destination untouched)"})
                return out
    plans = make_plans(item, R, rng, tier)
    out["plans"] = len(plans)
    seen_classes = set()
    # All plans of one item share argv and input files: run them as forked children of one parked process (fork server in
    # procsim.so; stdout/stderr are files there).  Every 8th plan still goes through a fresh exec with real pipes.
    fs = None
    if USE_FORKSERVER and len(plans) >= 4:
        fs = proc.ForkServer(case)
        out["forkserver_runs"] = 0
    try:
        return _run_plans(item, case, R, plans, fs, out, pr, nwrites_dest, seen_classes, rng)
    finally:
        if fs is not None:
            fs.close()


USE_FORKSERVER = os.environ.get("VERIF_NO_FORKSERVER", "") == ""


def _run_plans(item, case, R, plans, fs, out, pr, nwrites_dest, seen_classes, rng):
    for pi, plan in enumerate(plans):
        c = dict(case)
        c["plan"] = plan
        for p in plan:
            parts = p.split()
            k = "%s/%s/%s" % (parts[1], parts[2], parts[4] if parts[4] != "err" else "err:" + parts[5])
            out["configured"][k] = out["configured"].get(k, 0) + 1
        via_fs = fs is not None and pi % 8 != 7
        if via_fs:
            try:
                res = fs.run(plan)
                out["forkserver_runs"] += 1
            except proc.ForkServerGone:
                # overloaded machine or dead server: not a verdict about complgen; continue with fresh execs for this item
                out["forkserver_lost"] = out.get("forkserver_lost", 0) + 1
                try:
                    fs.close()
                except Exception:
                    pass
                fs = None
                via_fs = False
                res = proc.run_case(c)
        else:
            res = proc.run_case(c)
        out["runs"] += 1
        out["steps"] += len(res["events"])
        fired = proc.fired(res["events"])
        for ev in fired:
            k = "%s/%s/%s" % (ev.get("role"), ev["call"], ev["inj"] if ev["inj"] != "err" else "err:" + ev.get("errno", "?"))
            out["fired"][k] = out["fired"].get(k, 0) + 1
        if fired:
            # a fault "inside an operation" = the program still had I/O to do afterwards in the reference trace
            last = max(i for i, ev in enumerate(res["events"]) if ev.get("inj", "-") not in ("-", "short-noop"))
            rest = [ev for ev in res["events"][last + 1:] if ev["call"] not in ("close",)]
            if rest or res["exit"] != R["exit"]:
                out["inside"] += 1
            else:
                out["after"] += 1
            if any(ev.get("role") in ("dest", "stdout") and ev["call"].startswith("write") for ev in fired) and nwrites_dest:
                # the last write of the script is the one BufWriter::drop would issue without an explicit flush
                lastw = max((int(ev["nth"]) for ev in R["events"] if ev.get("role") in ("dest", "stdout") and ev["call"].startswith("write")), default=-1)
                if any(int(ev.get("nth", -2)) == lastw for ev in fired if ev.get("role") in ("dest", "stdout")):
                    pr["final_flush_fault_hit"] = pr.get("final_flush_fault_hit", 0) + 1
        v = judge_faulted(item, R, res)
        if v and via_fs:
            # ground truth is a fresh exec with real pipes; a violation seen only under the fork server is a harness anomaly
            res = proc.run_case(c)
            out["runs"] += 1
            v2 = judge_faulted(item, R, res)
            if v2 != v:
                if v.startswith("hang") or v.startswith("too-many-steps"):
                    out["timeouts_not_confirmed"] = out.get("timeouts_not_confirmed", 0) + 1   # wall clock under load, not a verdict
                else:
                    out["forkserver_discrepancy"] = out.get("forkserver_discrepancy", 0) + 1
            v = v2
        if v:
            plan = essential_plan(item, case, R, plan, v)
            c = dict(case)
            c["plan"] = plan
            key = violation_key(item, v, plan)
            if key in seen_classes:
                out.setdefault("dups", 0)
                out["dups"] += 1
                continue
            seen_classes.add(key)
            out["violations"].append({"class": v, "key": key, "item": item, "plan": plan, "case": c, "observed": strip_res(res),
                                      "reference": strip_res(R), "fired": [ev for ev in fired]})
    if len(out["cases"]) < 1 and plans:
        out["cases"].append({"kind": item["kind"], "shell": item["shell"], "dest": item["dest_mode"], "input": item["input_mode"],
                             "plan": plans[rng.below(len(plans))], "grammar_head": item["grammar"][:80]})
    return out


# ------------------------------------------------------------------ minimisation / replay

def reproduce(v):
    """Re-run a violation record (fresh child processes); returns the violation class observed or None."""
    item = v["item"]
    case = base_case(item)
    R = proc.run_case(case)
    if not v["plan"]:
        return judge_reference(item, R), R, R
    if judge_reference(item, R):
        return None, R, R
    c = dict(case)
    c["plan"] = v["plan"]
    res = proc.run_case(c)
    return judge_faulted(item, R, res), R, res


def same_class(a, b):
    if a is None or b is None:
        return False
    if a.startswith("short-io") and b.startswith("short-io"):
        return True
    return a == b


def minimise(v):
    """Delta-debug: fault-plan entries first, then weaken, then the grammar (statement-wise, then characters)."""
    cls = v["class"]
    cur = json.loads(json.dumps(v))
    # wall budget: a hang costs the full timeout per candidate, so shrinking one must not stall the check
    deadline = time.time() + (90.0 if not cls.startswith("hang") else 150.0)

    def holds(cand):
        if time.time() > deadline:
            return False
        got, _, _ = reproduce(cand)
        return same_class(got, cls)

    # 1. drop plan entries
    changed = True
    while changed and len(cur["plan"]) > 1:
        changed = False
        for i in range(len(cur["plan"])):
            cand = json.loads(json.dumps(cur))
            del cand["plan"][i]
            if holds(cand):
                cur = cand
                changed = True
                break
    # 2. canonical modes
    for field, val in (("dots", "none"), ("input_mode", "file"), ("dest_mode", "existing")):
        if cur["item"][field] != val:
            cand = json.loads(json.dumps(cur))
            cand["item"][field] = val
            if holds(cand):
                cur = cand
    # 3. grammar: drop statements, then lines, then chunks of characters
    def shrink_text(parts, joiner):
        nonlocal cur
        i = 0
        while i < len(parts) and len(parts) > 1:
            cand_parts = parts[:i] + parts[i + 1:]
            cand = json.loads(json.dumps(cur))
            cand["item"]["grammar"] = joiner.join(cand_parts)
            if holds(cand):
                parts = cand_parts
                cur = cand
            else:
                i += 1
        return parts

    g = cur["item"]["grammar"]
    if len(g) < 20000:
        stmts = [s for s in g.split(";")]
        if len(stmts) > 1:
            shrink_text(stmts, ";")
        # ddmin over tokens, then over characters
        for unit in ("token", "char"):
            g = cur["item"]["grammar"]
            parts = gram.TOKEN_RE.findall(g) if unit == "token" else list(g)
            chunk = max(1, len(parts) // 2)
            budget = 600 if unit == "token" else 300
            while chunk >= 1 and budget > 0 and len(parts) > 1:
                i = 0
                progressed = False
                while i < len(parts) and budget > 0:
                    cand_parts = parts[:i] + parts[i + chunk:]
                    cand = json.loads(json.dumps(cur))
                    cand["item"]["grammar"] = "".join(cand_parts)
                    budget -= 1
                    if cand_parts and holds(cand):
                        parts = cand_parts
                        cur = cand
                        progressed = True
                    else:
                        i += chunk
                if not progressed or chunk > 1:
                    chunk = chunk // 2 if not progressed or chunk > 1 else chunk
                if not progressed and chunk == 0:
                    break
    got, R, res = reproduce(cur)
    cur["class"] = got or cls
    cur["observed"] = strip_res(res)
    cur["reference"] = strip_res(R)
    cur["case"] = dict(base_case(cur["item"]), plan=cur["plan"])
    return cur


def minimise_any(v):
    return v if v.get("mode") == "real-kernel" else minimise(v)


def replay(payload):
    if payload.get("mode") == "real-kernel":
        _, viol = real_kernel_crosscheck()
        hit = [x for x in viol if x["key"] == payload["key"]]
        return (hit[0]["class"] if hit else None), {"violations": hit}
    got, R, res = reproduce(payload)
    return got, {"observed": strip_res(res), "reference": strip_res(R)}


# ------------------------------------------------------------------ determinism self-check

def determinism_probe(items, seed, n):
    """n items x 2 executions each: (plan, event log, exit, stdout, stderr, dest bytes) must be identical."""
    rng = Rng(seed, "c06/determinism")
    bad = []
    chosen = rng.sample([it for it in items if it["fault_mode"] == "enumerate"], n)
    for it in chosen:
        case = base_case(it)
        R = proc.run_case(case)
        plans = make_plans(it, R, Rng(seed, "c06/item/%d" % it["id"]), "quick")
        for plan in ([[]] + rng.sample(plans, min(3, len(plans)))):
            c = dict(case)
            c["plan"] = plan
            a = proc.run_case(c)
            b = proc.run_case(c)
            if a["timeout"] or b["timeout"]:
                continue        # a hang is cut off by the wall clock at an arbitrary point; the main pass reports it as a violation
            ka = (a["exit"], a["stdout"], a["stderr"], a["files_after"], a["raw_log"])
            kb = (b["exit"], b["stdout"], b["stderr"], b["files_after"], b["raw_log"])
            if ka != kb:
                bad.append({"item": it["id"], "plan": plan})
    return len(chosen), bad


# ------------------------------------------------------------------ real-kernel cross-check of the simulated faults

def real_kernel_crosscheck():
    """A handful of faults produced by the REAL kernel (no shim): /dev/full as destination, /dev/full as stderr, a closed
    stdout pipe.  They must be judged the same way as their simulated counterparts, which ties the shim's fault model to
    reality.  Returns (runs, list of violation dicts)."""
    import subprocess
    import tempfile
    import shutil
    out = []
    runs = 0
    warn_grammar = "cmd <UNDEFINED> foo --opt=(a | b);\n<UNUSED> = x;\n"
    bad_grammar = "cmd (same \"1\" | same \"2\");\n"
    d = tempfile.mkdtemp(prefix="vreal-", dir=proc.scratch_root())
    try:
        with open(os.path.join(d, "w.usage"), "w") as f:
            f.write(warn_grammar)
        with open(os.path.join(d, "b.usage"), "w") as f:
            f.write(bad_grammar)
        for sh in gram.SHELLS:
            # 1. destination on a full device: never exit 0
            r = subprocess.run([build.COMPLGEN, "--" + sh, "/dev/full", "w.usage"], cwd=d, capture_output=True, env={"LC_ALL": "C"}, timeout=30)
            runs += 1
            if r.returncode != 1 or not r.stderr:
                out.append({"class": "real-kernel:dest-full:exit%s" % r.returncode, "key": "real-kernel:dest-full", "shell": sh, "stderr": proc.enc(r.stderr)[-400:]})
            for bad_dest, label in ((".", "dest-is-directory"), ("no/such/dir/out", "dest-in-missing-directory")):
                r = subprocess.run([build.COMPLGEN, "--" + sh, bad_dest, "w.usage"], cwd=d, capture_output=True, env={"LC_ALL": "C"}, timeout=30)
                runs += 1
                if r.returncode != 1 or not r.stderr:
                    out.append({"class": "real-kernel:%s:exit%s" % (label, r.returncode), "key": "real-kernel:" + label, "shell": sh, "stderr": proc.enc(r.stderr)[-400:]})
            # special files as destination: a complete script must still mean exit 0 (no fsync/seek/truncate that only regular files support)
            ref = subprocess.run([build.COMPLGEN, "--" + sh, "-", "w.usage"], cwd=d, capture_output=True, env={"LC_ALL": "C"}, timeout=30)
            r = subprocess.run([build.COMPLGEN, "--" + sh, "/dev/null", "w.usage"], cwd=d, capture_output=True, env={"LC_ALL": "C"}, timeout=30)
            runs += 2
            if r.returncode != 0 or ref.returncode != 0:
                out.append({"class": "real-kernel:dest-dev-null:exit%s" % r.returncode, "key": "real-kernel:dest-dev-null", "shell": sh, "stderr": proc.enc(r.stderr)[-400:]})
            r = subprocess.run([build.COMPLGEN, "--" + sh, "/dev/stdout", "w.usage"], cwd=d, capture_output=True, env={"LC_ALL": "C"}, timeout=30)
            runs += 1
            if r.returncode != 0 or r.stdout != ref.stdout:
                out.append({"class": "real-kernel:dest-dev-stdout-pipe:exit%s" % r.returncode, "key": "real-kernel:dest-dev-stdout-pipe", "shell": sh, "stderr": proc.enc(r.stderr)[-400:]})
            fifo = os.path.join(d, "fifo.%s" % sh)
            os.mkfifo(fifo)
            reader = subprocess.Popen(["cat", fifo], stdout=subprocess.PIPE)
            r = subprocess.run([build.COMPLGEN, "--" + sh, fifo, "w.usage"], cwd=d, capture_output=True, env={"LC_ALL": "C"}, timeout=30)
            got = reader.communicate(timeout=30)[0]
            runs += 1
            if r.returncode != 0 or got != ref.stdout:
                out.append({"class": "real-kernel:dest-fifo:exit%s" % r.returncode, "key": "real-kernel:dest-fifo", "shell": sh, "stderr": proc.enc(r.stderr)[-400:]})
            # 2. stdout on a full device
            with open("/dev/full", "wb") as full:
                r = subprocess.run([build.COMPLGEN, "--" + sh, "-", "w.usage"], cwd=d, stdout=full, stderr=subprocess.PIPE, env={"LC_ALL": "C"}, timeout=30)
            runs += 1
            if r.returncode != 1 or not r.stderr:
                out.append({"class": "real-kernel:stdout-full:exit%s" % r.returncode, "key": "real-kernel:stdout-full", "shell": sh, "stderr": proc.enc(r.stderr)[-400:]})
            # 3. stderr on a full device while only warnings are printed: success stays success, script complete
            with open("/dev/full", "wb") as full:
                r = subprocess.run([build.COMPLGEN, "--" + sh, "out.%s" % sh, "w.usage"], cwd=d, stdout=subprocess.PIPE, stderr=full, env={"LC_ALL": "C"}, timeout=30)
            runs += 1
            ok_ref = subprocess.run([build.COMPLGEN, "--" + sh, "ref.%s" % sh, "w.usage"], cwd=d, capture_output=True, env={"LC_ALL": "C"}, timeout=30)
            runs += 1
            same = False
            try:
                with open(os.path.join(d, "out.%s" % sh), "rb") as fa, open(os.path.join(d, "ref.%s" % sh), "rb") as fb:
                    same = fa.read() == fb.read()
            except OSError:
                pass
            if r.returncode != 0 or ok_ref.returncode != 0 or not same:
                out.append({"class": "real-kernel:stderr-full-warning:exit%s" % r.returncode, "key": "real-kernel:stderr-full-warning", "shell": sh})
            # 4. stderr on a full device while an error is reported: exit status stays 1, destination untouched
            with open("/dev/full", "wb") as full:
                r = subprocess.run([build.COMPLGEN, "--" + sh, "never.%s" % sh, "b.usage"], cwd=d, stdout=subprocess.PIPE, stderr=full, env={"LC_ALL": "C"}, timeout=30)
            runs += 1
            if r.returncode != 1 or os.path.exists(os.path.join(d, "never.%s" % sh)):
                out.append({"class": "real-kernel:stderr-full-error:exit%s" % r.returncode, "key": "real-kernel:stderr-full-error", "shell": sh})
    finally:
        shutil.rmtree(d, ignore_errors=True)
    return runs, out
