"""./check replay <file>: re-run exactly one recorded violation in fresh processes."""
import json

from . import build
from .common import log


def main(path):
    with open(path) as f:
        payload = json.load(f)
    prop = payload.get("property")
    build.build_procsim()
    build.build_complgen()
    if prop == "C06":
        from . import c06
        got, detail = c06.replay(payload)
    elif prop == "C10":
        from . import c10
        got, detail = c10.replay(payload)
    elif prop == "C17":
        from . import c17
        got, detail = c17.replay(payload)
    else:
        log("unknown property in replay file: %r" % prop)
        return 2
    want = payload.get("class")
    log("replay %s: recorded class=%s observed class=%s" % (path, want, got))
    if got:
        for k, v in detail.items():
            log("--- %s ---" % k)
            log(json.dumps(v, indent=1)[:4000])
        print("VIOLATION property=%s replay=%s" % (prop, path))
        return 1
    log("not reproduced (the property holds for this recorded case on the current tree)")
    return 0
