"""Run one child process under procsim.so with an explicit plan.

A *case* is a plain dict (JSON-serialisable, so it doubles as the replay
format):

  argv        list of str, argv[1:] for the binary (paths relative to the scratch dir)
  binary      "complgen" | "harness"
  files       {relative name: text (latin-1 encoded bytes)} created before the run
  stdin       None | latin-1 text delivered on fd 0 (pre-filled pipe, closed before exec)
  stdout      "pipe" | "file"          where fd 1 goes
  roles       {"input": name|"-", "dest": name|"-", "dotregex": name, "dotdfa": name}
  plan        list of plan lines (see procsim.c), without role lines
  env         {name: value}  the *whole* environment of the child
  stack_kb    RLIMIT_STACK soft limit in KiB (>= 8192)
  aslr        bool (default False = personality(ADDR_NO_RANDOMIZE))
  watch       list of relative names whose bytes / inode are reported afterwards

Result dict: exit (int; negative = signal), timeout (bool), stdout, stderr
(latin-1 text), files_after {name: text|None}, inode_before/after, events
(parsed event log), raw_log.
"""
import ctypes
import os
import resource
import shutil
import subprocess
import tempfile

from . import build

ADDR_NO_RANDOMIZE = 0x0040000
MAX_LOG_BYTES = 64 << 20
_libc = None


def scratch_root():
    root = os.environ.get("VERIF_SCRATCH")
    if not root:
        root = "/dev/shm" if os.path.isdir("/dev/shm") and os.access("/dev/shm", os.W_OK) else os.path.join(build.VERIF, ".scratch")
    os.makedirs(root, exist_ok=True)
    return root


def enc(b):
    return b.decode("latin-1")


def dec(s):
    return s.encode("latin-1")


def parse_events(raw):
    events = []
    for line in raw.splitlines():
        parts = line.split(" ")
        if len(parts) < 2:
            continue
        ev = {"seq": int(parts[0]) if parts[0].isdigit() else -1, "call": parts[1]}
        rest = parts[2:]
        if rest and "=" not in rest[0]:
            ev["role"] = rest[0]
            rest = rest[1:]
        for kv in rest:
            if "=" in kv:
                k, v = kv.split("=", 1)
                ev[k] = v
        events.append(ev)
    return events


_state = {"aslr": None, "stack_kb": None}


def _set_process_attrs(stack_kb, aslr):
    """personality(ADDR_NO_RANDOMIZE) and RLIMIT_STACK are inherited across fork+exec, so they are set on the
    (single-threaded) driver/worker process itself right before spawning: no preexec_fn, which would force the slow
    fork path (11 ms per child instead of 4)."""
    global _libc
    if _state["aslr"] != aslr:
        if _libc is None:
            _libc = ctypes.CDLL(None, use_errno=True)
        cur = _libc.personality(0xFFFFFFFF)
        want = (cur & ~ADDR_NO_RANDOMIZE) if aslr else (cur | ADDR_NO_RANDOMIZE)
        _libc.personality(want)
        _state["aslr"] = aslr
    if stack_kb and _state["stack_kb"] != stack_kb:
        hard = resource.getrlimit(resource.RLIMIT_STACK)[1]
        resource.setrlimit(resource.RLIMIT_STACK, (stack_kb * 1024, hard))
        _state["stack_kb"] = stack_kb
    if _state.get("core") is None:
        resource.setrlimit(resource.RLIMIT_CORE, (0, 0))
        _state["core"] = 0


def aslr_disable_works():
    """personality(ADDR_NO_RANDOMIZE) accepted by this sandbox?  (two children must see identical stack/heap maps)"""
    _set_process_attrs(8192, False)
    maps = []
    for _ in range(2):
        r = subprocess.run(["cat", "/proc/self/maps"], capture_output=True, text=True)
        maps.append([l.split()[0] for l in r.stdout.splitlines() if "[stack]" in l or "[heap]" in l])
    return bool(maps[0]) and maps[0] == maps[1]


def run_case(case, timeout=20.0, keep_dir=False):
    binary = build.COMPLGEN if case.get("binary", "complgen") == "complgen" else build.HARNESS
    d = tempfile.mkdtemp(prefix="vsim-", dir=scratch_root())
    try:
        inode_before = {}
        for name, text in case.get("files", {}).items():
            os.makedirs(os.path.dirname(os.path.join(d, name)), exist_ok=True)
            with open(os.path.join(d, name), "wb") as f:
                f.write(dec(text))
        for name in case.get("watch", []):
            p = os.path.join(d, name)
            inode_before[name] = os.stat(p).st_ino if os.path.exists(p) else None
        argv = list(case["argv"])
        roles = dict(case.get("roles", {}))
        if case.get("absolute"):
            # the same files named by absolute path on the command line
            named = set(v for v in roles.values() if v != "-")
            argv = [os.path.join(d, a) if a in named else a for a in argv]
            roles = {k: (os.path.join(d, v) if v != "-" else v) for k, v in roles.items()}
        lines = []
        for role, path in roles.items():
            lines.append("role %s %s" % (role, path))
        lines += case.get("plan_prefix", [])
        lines += case.get("plan", [])
        with open(os.path.join(d, ".plan"), "w") as f:
            f.write("\n".join(lines) + "\n")
        env = dict(case.get("env", {}))
        env["LD_PRELOAD"] = build.PROCSIM_SO
        env["PROCSIM_PLAN"] = ".plan"
        env["PROCSIM_LOG"] = ".elog"
        stdin_arg = subprocess.DEVNULL
        rfd = None
        if case.get("stdin") is not None:
            data = dec(case["stdin"])
            if len(data) <= 60000:
                rfd, wfd = os.pipe()
                os.write(wfd, data)
                os.close(wfd)
                stdin_arg = rfd
            else:
                with open(os.path.join(d, ".stdin"), "wb") as f:
                    f.write(data)
                rfd = os.open(os.path.join(d, ".stdin"), os.O_RDONLY)
                stdin_arg = rfd
        stdout_arg = subprocess.PIPE
        outf = None
        if case.get("stdout", "pipe") == "file":
            outf = open(os.path.join(d, ".stdout"), "wb")
            stdout_arg = outf
        timed_out = False
        exe = binary
        if case.get("argv0"):
            # the program is started through a symlink, so argv[0] / current_exe() differ although the binary is the same
            os.symlink(binary, os.path.join(d, case["argv0"]))
            exe = "./" + case["argv0"]
        for sub in case.get("mkdirs", []):
            os.makedirs(os.path.join(d, sub), exist_ok=True)
        old_umask = os.umask(case["umask"]) if case.get("umask") is not None else None
        old_aff = None
        if case.get("cpus"):
            try:
                old_aff = os.sched_getaffinity(0)
                os.sched_setaffinity(0, set(sorted(old_aff)[:case["cpus"]]))
            except OSError:
                old_aff = None
        try:
            _set_process_attrs(case.get("stack_kb", 8192), case.get("aslr", False))
            try:
                p = subprocess.Popen([exe] + argv, cwd=d, env=env, stdin=stdin_arg, stdout=stdout_arg,
                                     stderr=subprocess.PIPE)
            finally:
                if old_umask is not None:
                    os.umask(old_umask)
                if old_aff is not None:
                    os.sched_setaffinity(0, old_aff)
            try:
                out, err = p.communicate(timeout=timeout)
            except subprocess.TimeoutExpired:
                p.kill()
                out, err = p.communicate()
                timed_out = True
            rc = p.returncode
        finally:
            if rfd is not None:
                os.close(rfd)
            if outf is not None:
                outf.close()
        if outf is not None:
            with open(os.path.join(d, ".stdout"), "rb") as f:
                out = f.read()
        files_after = {}
        inode_after = {}
        for name in case.get("watch", []):
            p_ = os.path.join(d, name)
            if os.path.exists(p_):
                with open(p_, "rb") as f:
                    files_after[name] = enc(f.read(MAX_LOG_BYTES))   # a runaway writer must not take the driver down with it
                inode_after[name] = os.stat(p_).st_ino
            else:
                files_after[name] = None
                inode_after[name] = None
        try:
            with open(os.path.join(d, ".elog")) as f:
                raw = f.read(MAX_LOG_BYTES)
        except FileNotFoundError:
            raw = ""
        return {
            "exit": rc, "timeout": timed_out, "stdout": enc(out or b""), "stderr": enc(err or b""),
            "files_after": files_after, "inode_before": inode_before, "inode_after": inode_after,
            "events": parse_events(raw), "raw_log": raw,
        }
    finally:
        if not keep_dir:
            shutil.rmtree(d, ignore_errors=True)


def fired(events):
    """Faults that actually fired, from the event log (not from the plan)."""
    out = []
    for ev in events:
        inj = ev.get("inj", "-")
        if inj not in ("-", "short-noop"):
            out.append(ev)
    return out


class ForkServerGone(Exception):
    """The parked process did not answer (machine overloaded, or it died): callers fall back to a fresh exec."""


class ForkServer:
    """One parked copy of the binary (argv fixed) that forks a fresh child per run directory -- see procsim.c.
    Results have the same shape as run_case(); stdout/stderr/stdin are files instead of pipes."""

    def __init__(self, case):
        import select  # noqa: F401
        self.case = case
        binary = build.COMPLGEN if case.get("binary", "complgen") == "complgen" else build.HARNESS
        self.ctl_r, self.ctl_w = os.pipe()
        self.st_r, self.st_w = os.pipe()
        env = dict(case.get("env", {}))
        env["LD_PRELOAD"] = build.PROCSIM_SO
        env["PROCSIM_PLAN"] = ".plan"
        env["PROCSIM_LOG"] = ".elog"
        env["PROCSIM_FORKSERVER"] = "%d,%d" % (self.ctl_r, self.st_w)
        _set_process_attrs(case.get("stack_kb", 8192), case.get("aslr", False))
        self.root = tempfile.mkdtemp(prefix="vfs-", dir=scratch_root())
        self.p = subprocess.Popen([binary] + list(case["argv"]), cwd=self.root, env=env, stdin=subprocess.DEVNULL, stdout=subprocess.DEVNULL,
                                  stderr=subprocess.DEVNULL, pass_fds=(self.ctl_r, self.st_w))
        os.close(self.ctl_r)
        os.close(self.st_w)
        self.buf = b""
        self.n = 0

    def _readline(self, timeout):
        import select
        while b"\n" not in self.buf:
            r, _, _ = select.select([self.st_r], [], [], timeout)
            if not r:
                return None
            chunk = os.read(self.st_r, 4096)
            if not chunk:
                raise ForkServerGone("fork server died")
            self.buf += chunk
        line, self.buf = self.buf.split(b"\n", 1)
        return line.decode()

    def run(self, plan, timeout=20.0):
        case = self.case
        self.n += 1
        d = os.path.join(self.root, "r%d" % self.n)
        os.mkdir(d)
        try:
            inode_before = {}
            for name, text in case.get("files", {}).items():
                with open(os.path.join(d, name), "wb") as f:
                    f.write(dec(text))
            for name in case.get("watch", []):
                p = os.path.join(d, name)
                inode_before[name] = os.stat(p).st_ino if os.path.exists(p) else None
            lines = ["role %s %s" % (role, path) for role, path in case.get("roles", {}).items()] + list(case.get("plan_prefix", [])) + list(plan)
            with open(os.path.join(d, ".plan"), "w") as f:
                f.write("\n".join(lines) + "\n")
            if case.get("stdin") is not None:
                with open(os.path.join(d, ".stdin"), "wb") as f:
                    f.write(dec(case["stdin"]))
            os.write(self.ctl_w, (d + "\n").encode())
            pl = self._readline(120.0)
            if pl is None or not pl.startswith("P "):
                raise ForkServerGone("fork server did not answer: %r" % pl)
            pid = int(pl[2:])
            sl = self._readline(timeout)
            timed_out = False
            if sl is None:
                timed_out = True
                try:
                    os.kill(pid, 9)
                except ProcessLookupError:
                    pass
                sl = self._readline(10.0)
            status = int(sl[2:]) if sl and sl.startswith("S ") else 0
            rc = os.waitstatus_to_exitcode(status)

            def rd(name):
                try:
                    with open(os.path.join(d, name), "rb") as f:
                        return enc(f.read(MAX_LOG_BYTES))
                except FileNotFoundError:
                    return ""
            files_after, inode_after = {}, {}
            for name in case.get("watch", []):
                p_ = os.path.join(d, name)
                if os.path.exists(p_):
                    files_after[name] = rd(name)
                    inode_after[name] = os.stat(p_).st_ino
                else:
                    files_after[name] = None
                    inode_after[name] = None
            raw = rd(".elog")
            return {"exit": rc, "timeout": timed_out, "stdout": rd(".stdout"), "stderr": rd(".stderr"), "files_after": files_after,
                    "inode_before": inode_before, "inode_after": inode_after, "events": parse_events(raw), "raw_log": raw}
        finally:
            shutil.rmtree(d, ignore_errors=True)

    def close(self):
        try:
            os.close(self.ctl_w)
        except OSError:
            pass
        try:
            self.p.wait(timeout=5)
        except subprocess.TimeoutExpired:
            self.p.kill()
            self.p.wait()
        try:
            os.close(self.st_r)
        except OSError:
            pass
        shutil.rmtree(self.root, ignore_errors=True)
