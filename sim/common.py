"""Shared plumbing: worker pool with ordered results, replay files, known
findings, evidence writer."""
import json
import multiprocessing as mp
import os
import sys
import time

from . import build
from .prng import DEFAULT_SEED

EVIDENCE_DIR = os.path.join(build.VERIF, "evidence")
REPLAY_DIR = os.path.join(build.VERIF, "replays")
KNOWN_FINDINGS = os.path.join(build.VERIF, "known_findings.json")


def verif_seed():
    s = os.environ.get("VERIF_SEED", "")
    try:
        return int(s) if s else DEFAULT_SEED
    except ValueError:
        return DEFAULT_SEED


def workers():
    try:
        return max(1, int(os.environ.get("VERIF_WORKERS", "") or (os.cpu_count() or 4)))
    except ValueError:
        return 4


def pmap(fn, items, nworkers=None, chunksize=1):
    """Ordered parallel map: results do not depend on the worker count."""
    n = nworkers or workers()
    items = list(items)
    if n <= 1 or len(items) <= 1:
        for it in items:
            yield fn(it)
        return
    ctx = mp.get_context("fork")
    with ctx.Pool(n) as pool:
        it = pool.imap(fn, items, chunksize)
        for _ in range(len(items)):
            try:
                # watchdog: a worker that died (OOM, stray signal) never delivers its result; fail loudly instead of waiting forever
                yield it.next(timeout=float(os.environ.get("VERIF_ITEM_TIMEOUT", "3600")))
            except mp.TimeoutError:
                from .build import HarnessError
                raise HarnessError("a worker did not deliver its result within the watchdog time (worker died or stalled)")


def log(*a):
    print(*a, file=sys.stderr, flush=True)


def load_known_findings():
    try:
        with open(KNOWN_FINDINGS) as f:
            return json.load(f)
    except FileNotFoundError:
        return {"findings": [], "fixed": []}


def match_known(prop, key, findings=None):
    findings = findings if findings is not None else load_known_findings()
    for k in findings.get("findings", []):
        if k.get("property") == prop and k.get("key") == key:
            return k
    return None


def write_replay(prop, seed, n, payload):
    os.makedirs(REPLAY_DIR, exist_ok=True)
    path = os.path.join(REPLAY_DIR, "%s-%d-%d.json" % (prop, seed, n))
    with open(path, "w") as f:
        json.dump(payload, f, indent=1, sort_keys=True)
    return path


def write_evidence(prop, tier, seed, level, coverage, wall_s, violations, assumptions):
    os.makedirs(EVIDENCE_DIR, exist_ok=True)
    ev = {
        "property_id": prop, "tier": tier, "seed": seed, "level": level, "coverage": coverage,
        "assumptions": assumptions, "wall_s": round(wall_s, 2), "violations": violations,
    }
    path = os.path.join(EVIDENCE_DIR, "%s.json" % prop)
    tmp = path + ".tmp"
    with open(tmp, "w") as f:
        json.dump(ev, f, indent=1)
    os.replace(tmp, path)
    return path


class Timer:
    def __init__(self):
        self.t0 = time.time()

    def s(self):
        return time.time() - self.t0
