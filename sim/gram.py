"""Seeded grammar workload for C06 and C10: a tree generator for (mostly)
accepted .usage grammars, planted mistakes of every Error variant, warning
triggers, token-level mutations and a fixed stress corpus.

Nothing here judges anything: whether a grammar is accepted is learnt from the
fault-free reference run of the build under test.
"""
import re

SHELLS = ["bash", "fish", "zsh", "pwsh"]

WORDS = ["add", "all", "auto", "branch", "check", "clone", "commit", "diff", "fetch", "file", "grep", "init", "log",
         "merge", "never", "pull", "push", "read", "reset", "show", "skip", "status", "tag", "write"]
OPTS = ["--all", "--bare", "--color", "--colour", "--count", "--dry-run", "--exclude", "--exclude-dir", "--exclude-from",
        "--file", "--force", "--help", "--include", "--no-pager", "--null", "--null-data", "--quiet", "--verbose",
        "--version", "-a", "-b", "-c", "-f", "-h", "-n", "-q", "-v", "-x"]
DESCRS = ["be quiet", "show version", "use FILE", "a \\\"quoted\\\" word", "back\\\\slash", "$HOME `id` !x", "tabs and: colons",
          "x", "print 0 byte after name", "do not strip CR characters (MSDOS/Windows)",
          # UTF-8 text, written as latin-1-decoded bytes because grammar texts travel as latin-1 strings
          "gro\xc3\x9f und klein", "\xe6\x97\xa5\xe6\x9c\xac\xe8\xaa\x9e", "caf\xc3\xa9 \xe2\x80\x94 na\xc3\xafve"]
ODD_LITS = ["a\\|b", "x\\;y", "\\(p\\)", "q\\\"r", "dot.", "..", "a\\.\\.\\.b", "it's", "50%", "~user", "*glob?", "$var", "`tick`",
            "#hash", "a&b", "k=v", "+x", "@at", "^caret", "c:/path", "co,mma", "\\[b\\]", "\\{c\\}", "\\<lt\\>", "back\\\\sl"]
CMDS = ["echo foo; echo bar", "printf '%s\\n' a b c", "compgen -A file -- \"$1\"", "git branch --format='%(refname:short)'",
        "ls -1 | sort", "echo \"$1\" \"$2\"", "cat /etc/shells", ":", "_users", "Get-ChildItem | % { $_.Name }",
        "__fish_complete_users", "echo 'tab\tsep'", "echo {a,b}c",
        # multi-line command texts: indentation, blank and whitespace-only lines inside are data
        "if true; then\n        echo a\n\n        echo b\n    fi", "echo first\n\n\n  echo second\n \n    echo third",
        "cat <<'EOF'\n  indented\n\nEOF", "\n\n  echo leading-blank-lines\n"]
NTNAMES = ["OPTION", "FILE", "WHEN", "NUM", "MODE", "REF", "SUB", "ARG", "value", "qualifier", "cmd-name", "X", "Y", "Z"]


class G:
    """Generation context."""

    def __init__(self, rng, size):
        self.rng = rng
        self.budget = size
        self.lit_n = 0
        self.used_lits = []
        self.defs = {}        # name -> text of rhs
        self.cmd_defs = {}    # name -> plain command text
        self.spec = []        # (name, shell, cmd)
        self.undefined = []

    def lit(self):
        r = self.rng
        self.lit_n += 1
        k = r.below(100)
        if k < 40:
            base = r.choice(WORDS)
        elif k < 80:
            base = r.choice(OPTS)
        elif k < 88:
            base = r.choice(ODD_LITS)
        else:
            base = r.choice(WORDS) + "-" + r.choice(WORDS)
        if r.chance(1, 2):
            base += str(self.lit_n)
        self.used_lits.append(base)
        return base

    def lit_descr(self):
        t = self.lit()
        if self.rng.chance(1, 4):
            t += ' "%s"' % self.rng.choice(DESCRS)
        return t

    def cmd(self):
        c = self.rng.choice(CMDS)
        if self.rng.chance(1, 3):
            c += " # %d" % self.rng.below(50)
        return "{{{ %s }}}" % c

    def nonterm(self, depth):
        r = self.rng
        done = [n for n, b in self.defs.items() if b is not None]  # never a name whose body is still being built: no cycles
        if done and r.chance(1, 2):
            return "<%s>" % r.choice(done)
        name = r.choice(NTNAMES) + str(len(self.defs) + len(self.cmd_defs))
        kind = r.below(10)
        if kind < 5 and depth < 3:
            self.defs[name] = None  # reserve (prevents cycles: body may only use earlier names)
            body = self.expr(depth + 1, top=True)
            self.defs[name] = body
        elif kind < 8:
            self.cmd_defs[name] = self.cmd()
            if r.chance(1, 2):
                for sh in r.sample(SHELLS, r.range(1, 3)):
                    self.spec.append((name, sh, self.cmd()))
        elif kind == 8:
            for sh in r.sample(SHELLS, r.range(1, 4)):
                self.spec.append((name, sh, self.cmd()))
        else:
            self.undefined.append(name)
        return "<%s>" % name

    def subword(self, depth):
        """within-word juxtaposition: literal prefix then a value set / nonterminal / command (tail)."""
        r = self.rng
        head = self.lit() + r.choice(["=", ":", ",", ""])
        if head.endswith(("0", "1", "2", "3", "4", "5", "6", "7", "8", "9")) and not head[-1] in "=:,":
            head += "="
        k = r.below(10)
        if k < 5:
            vals = [r.choice(WORDS) + (str(r.below(30)) if r.chance(1, 2) else "") for _ in range(r.range(2, 4))]
            vals = list(dict.fromkeys(vals))
            sep = " || " if r.chance(1, 5) else " | "
            tail = "(" + sep.join(vals) + ")"
            if r.chance(1, 4):
                tail = "[" + tail[1:-1] + "]"
        elif k < 7:
            tail = self.cmd()
        elif k < 8:
            tail = "<%s>" % r.choice(["PATH", "DIRECTORY", "_", "ANY%d" % r.below(5)])
        elif k < 9:
            # the value is a nonterminal whose definition is itself a within-word expression (nested words get collapsed)
            name = "WORD%d" % (len(self.defs) + len(self.cmd_defs))
            inner = r.choice(["x(y | z)", "p%d{{{ echo q }}}" % r.below(9), "k<ANY%d>" % r.below(5), "(a | b)[,(a | b)]...", "v=(on | off)"])
            # ... possibly through one or two more levels of within-word definitions (key=<VALUE>, <VALUE> = (a|b):<PATTERN>)
            for lvl in range(r.weighted([(3, 0), (2, 1), (2, 2)])):
                deeper = "WORD%d_%d" % (len(self.defs) + len(self.cmd_defs), lvl)
                self.defs[deeper] = inner
                inner = r.choice(["k%d=<%s>", "(exact%d | glob):<%s>", "<KEYUNDEF%d>=<%s>", "n%d<%s>"]) % (lvl, deeper)
            self.defs[name] = inner
            tail = "<%s>" % name
        else:
            a = r.choice(WORDS) + str(r.below(30))
            b = r.choice(WORDS) + str(30 + r.below(30))
            tail = "(%s | %s)[,(%s | %s)]..." % (a, b, a, b)
        return head + tail

    def atom(self, depth):
        r = self.rng
        self.budget -= 1
        k = r.below(100)
        if k < 50 or self.budget <= 0:
            return self.lit_descr()
        if k < 62:
            return self.subword(depth)
        if k < 74:
            return self.nonterm(depth)
        if k < 80:
            return self.cmd()
        if k < 86:
            return r.choice(["<PATH>", "<DIRECTORY>", "<_>"])
        if k < 93:
            return "[" + self.expr(depth + 1) + "]" + ("..." if r.chance(1, 3) else "")
        return "(" + self.expr(depth + 1) + ")" + ("..." if r.chance(1, 2) else "")

    def seq(self, depth):
        n = 1 if self.budget <= 0 else self.rng.weighted([(5, 1), (4, 2), (2, 3), (1, 4)])
        return " ".join(self.atom(depth) for _ in range(n))

    def alt(self, depth):
        n = 1 if self.budget <= 0 else self.rng.weighted([(5, 1), (3, 2), (2, 3), (1, 5)])
        return " | ".join(self.seq(depth) for _ in range(n))

    def expr(self, depth, top=False):
        n = 1 if (self.budget <= 0 or depth > 3) else self.rng.weighted([(8, 1), (2, 2), (1, 3)])
        return " || ".join(self.alt(depth) for _ in range(n))


def gen_grammar(rng, size=12, command=None):
    """Returns grammar text.  `size` ~ number of atoms."""
    g = G(rng, size)
    # every character the terminal syntax admits may appear in a command name except `/`
    command = command or rng.choice(["cmd", "mytool", "x-y", "a.b", "t_1", "cmd", "mytool", "it's", "c++", "a:b", "k=v", "50%", "x@y", "~t", "a,b", "q?"])
    nvariants = rng.weighted([(6, 1), (3, 2), (1, 3)])
    stmts = []
    for _ in range(nvariants):
        stmts.append("%s %s;" % (command, g.expr(0, top=True)))
    defs = []
    for name, body in g.defs.items():
        if body is None:
            body = "placeholder"
        eq = "::=" if rng.chance(1, 5) else "="
        defs.append("<%s> %s %s;" % (name, eq, body))
    for name, c in g.cmd_defs.items():
        defs.append("<%s> = %s;" % (name, c))
    for name, sh, c in g.spec:
        defs.append("<%s@%s> = %s;" % (name, sh, c))
    rng.shuffle(defs)
    lines = stmts + defs
    if rng.chance(1, 4):
        lines.insert(rng.below(len(lines) + 1), "# a comment ; with ( brackets")
    sep = rng.choice(["\n", "\n\n", " "])
    text = sep.join(lines)
    if rng.chance(1, 6):
        text = text.rstrip(";")
    return text + ("\n" if rng.chance(3, 4) else "")


def gen_big_grammar(rng, states=60):
    """Biased to what makes orders differ (C10): many literals sharing prefixes, several commands, several
    same-shaped and differently-shaped within-word automata, several fallback levels."""
    n_sub = rng.range(3, 8)
    subs = []
    shapes = [rng.range(2, 5) for _ in range(3)]
    for i in range(n_sub):
        k = rng.choice(shapes)
        vals = ["v%d_%d" % (i, j) if rng.chance(2, 3) else rng.choice(WORDS) + str(j) for j in range(k)]
        subs.append("--opt%d=(%s)" % (i, " | ".join(dict.fromkeys(vals))))
    for i in range(rng.range(0, 3)):
        subs.append("--cmd%d={{{ echo c%d }}}" % (i, i))
    for i in range(rng.range(0, 3)):
        subs.append("--path%d=<PATH>" % i)
    n_sc = rng.range(4, 12)
    variants = []
    pre = rng.choice(["", "re", "sub", "x"])
    for i in range(n_sc):
        name = pre + rng.choice(WORDS) + str(i)
        opts = rng.sample(subs, min(len(subs), rng.range(1, 4)))
        flags = ["--%s%d" % (rng.choice(WORDS), rng.below(40)) for _ in range(rng.range(1, 5))]
        flags = list(dict.fromkeys(flags))
        body = "[%s]..." % " | ".join(opts + flags)
        if rng.chance(1, 2):
            body = "(%s || %s)" % (body, " | ".join("-%s" % chr(97 + (i + j) % 26) for j in range(2)))
        tail = rng.choice(["<PATH>...", "<_>", "{{{ echo t%d }}}" % i, "<REF>", "[<REF>]...", ""])
        variants.append("big %s %s %s;" % (name, body, tail))
    defs = ["<REF> = {{{ git for-each-ref }}};", "<REF@fish> = {{{ __fish_git_refs }}};"]
    rng.shuffle(variants)
    return "\n".join(variants + defs) + "\n"


# ---------------------------------------------------------------- planted mistakes / warnings

MISTAKE_KINDS = ["parse_unbalanced", "parse_stray", "parse_unclosed_nt", "parse_bad_escape", "parse_unclosed_cmd",
             "parse_unclosed_descr", "missing_call_variants", "invalid_command_name", "varying_command_names",
             "cycle_reached", "cycle_unreached", "cycle_self", "duplicate_def", "duplicate_spec", "unknown_shell",
             "non_command_spec", "unbounded_matchable", "conflicting_descr", "subword_spaces", "subword_spaces_deep",
             "ambiguous_dfa", "ambiguous_subword", "conflict_in_subword", "cycle_in_subword", "cycle_unreached_ref",
             "error_on_other_line"]


def plant_mistake(rng, text, kind=None):
    """Returns (kind, new_text).  Each kind aims at one Error variant (lib.rs:17-63)."""
    kind = kind or rng.choice(MISTAKE_KINDS)
    m = re.match(r"\s*(?:#[^\n]*\n\s*)*([^\s;]+)", text)
    cmd = m.group(1) if m else "cmd"
    t = text if text.endswith("\n") else text + "\n"
    if not t.rstrip().endswith(";"):
        t = t.rstrip() + ";\n"
    if kind == "parse_unbalanced":
        return kind, t + "%s ( foo [ bar ) ];\n" % cmd
    if kind == "parse_stray":
        return kind, t + rng.choice([")", "]", "|", "||", "...", "\"", "}}}", ">"]) + "\n"
    if kind == "parse_unclosed_nt":
        return kind, t + "%s <UNCLOSED foo;\n" % cmd
    if kind == "parse_bad_escape":
        return kind, t + "%s foo\\q;\n" % cmd
    if kind == "parse_unclosed_cmd":
        return kind, t + "%s {{{ echo foo }};\n" % cmd
    if kind == "parse_unclosed_descr":
        return kind, t + "%s foo \"never closed;\n" % cmd
    if kind == "missing_call_variants":
        return kind, "<A> = foo;\n<B> = {{{ echo }}};\n"
    if kind == "invalid_command_name":
        return kind, "./bin/%s foo;\n" % cmd
    if kind == "varying_command_names":
        return kind, t + "other%s foo;\n" % cmd
    if kind == "cycle_reached":
        return kind, t + "%s <CYA>;\n<CYA> = a <CYB>;\n<CYB> = b [<CYA>];\n" % cmd
    if kind == "cycle_unreached":
        return kind, t + "<CYA> = a <CYB>;\n<CYB> = b [<CYA>];\n"
    if kind == "cycle_self":
        return kind, t + "%s <SELF>;\n<SELF> = x | <SELF> y;\n" % cmd
    if kind == "duplicate_def":
        return kind, t + "<DUP> = a;\n\n<DUP> = b;\n%s <DUP>;\n" % cmd
    if kind == "duplicate_spec":
        return kind, t + "<DUP@bash> = {{{ a }}};\n<DUP@bash> = {{{ b }}};\n<DUP@fish> = {{{ a }}};\n<DUP@fish> = {{{ b }}};\n<DUP@zsh> = {{{ a }}};\n<DUP@zsh> = {{{ b }}};\n<DUP@pwsh> = {{{ a }}};\n<DUP@pwsh> = {{{ b }}};\n%s <DUP>;\n" % cmd
    if kind == "unknown_shell":
        return kind, t + "<SH@tcsh> = {{{ a }}};\n%s <SH>;\n" % cmd
    if kind == "non_command_spec":
        return kind, t + "<NC@bash> = foo;\n<NC@fish> = foo;\n<NC@zsh> = foo;\n<NC@pwsh> = foo;\n%s <NC>;\n" % cmd
    if kind == "unbounded_matchable":
        return kind, t + "%s --um=<UMX>tail;\n" % cmd
    if kind == "conflicting_descr":
        return kind, t + "%s sub (same \"one\" | same \"two\");\n" % cmd
    if kind == "subword_spaces":
        return kind, t + "%s --ss=<SSV>;\n<SSV> = aa bb;\n" % cmd
    if kind == "subword_spaces_deep":
        return kind, t + "%s --sd=<SD1>;\n<SD1> = x | <SD2>;\n<SD2> = [<SD3>];\n<SD3> = (p q)...;\n" % cmd
    if kind == "ambiguous_dfa":
        return kind, t + "%s amb (<AMB1> foo | <AMB2> bar);\n" % cmd
    if kind == "ambiguous_subword":
        return kind, t + "%s --as=(<ASA>x | <ASB>y);\n" % cmd
    if kind == "conflict_in_subword":
        return kind, t + "%s --cs=(same \"one\" | same \"two\");\n" % cmd
    if kind == "cycle_in_subword":
        return kind, t + "%s --cy=<CSW>;\n<CSW> = a<CSW>;\n" % cmd
    if kind == "cycle_unreached_ref":
        return kind, t + "%s <CUY>;\n<CUY> = a [<CUY>];\n<CUROOT> = x;\n" % cmd
    if kind == "error_on_other_line":
        return kind, t + "%s multi\n   line\n     (same \"d1\"\n   | same\n \"d2\");\n<DUP> = a\n | b;\n<DUP>\n = c;\n" % cmd
    return kind, t


def plant_warning(rng, text):
    m = re.match(r"\s*(?:#[^\n]*\n\s*)*([^\s;]+)", text)
    cmd = m.group(1) if m else "cmd"
    t = text if text.endswith("\n") else text + "\n"
    if not t.rstrip().endswith(";"):
        t = t.rstrip() + ";\n"
    adds = []
    for _ in range(rng.range(1, 4)):
        k = rng.below(4)
        i = rng.below(1000)
        if k == 0:
            adds.append("%s w%d <UNDEFINED%d>;" % (cmd, i, i))
        elif k == 1:
            adds.append("<UNUSED%d> = foo | bar;" % i)
        elif k == 2:
            adds.append("<UNUSEDSPEC%d@%s> = {{{ echo x }}};" % (i, rng.choice(SHELLS)))
        else:
            adds.append("%s w%d --w%d=<UNDEFSUB%d>;" % (cmd, i, i, i))
    return t + "\n".join(adds) + "\n"


# ---------------------------------------------------------------- token-level mutation (input dimension)

TOKEN_RE = re.compile(r"\{\{\{|\}\}\}|\.\.\.|\|\||::=|\"(?:[^\"\\]|\\.)*\"|[()\[\]<>|;=@]|\s+|#[^\n]*|[^\s()\[\]<>|;\"{}]+|.", re.S)
SOUP = ["(", ")", "[", "]", "<", ">", "|", "||", "...", ";", "=", "::=", "{{{", "}}}", "\"", "\\", "@", "@bash", "<A>", "<A@fish>",
        "foo", "--bar=", "\n", " ", "\t", "\x0c", "#", "\xc3\xa9", "\xe6\x97\xa5\xe6\x9c\xac", "\x00", "\r\n", "..", ".", "<_>", "<PATH>", "\\\n", "\"d\""]


def mutate(rng, text, n=None):
    toks = TOKEN_RE.findall(text)
    n = n or rng.weighted([(5, 1), (3, 2), (2, 4), (1, 8)])
    for _ in range(n):
        if not toks:
            toks = [rng.choice(SOUP)]
            continue
        k = rng.below(8)
        i = rng.below(len(toks))
        if k == 0:
            del toks[i]
        elif k == 1:
            toks.insert(i, toks[i])
        elif k == 2:
            j = rng.below(len(toks))
            toks[i], toks[j] = toks[j], toks[i]
        elif k == 3:
            toks.insert(i, rng.choice(SOUP))
        elif k == 4:
            toks[i] = rng.choice(SOUP)
        elif k == 5:
            toks = toks[:i]  # truncation
        elif k == 6:
            j = min(len(toks), i + rng.range(1, 6))
            toks[i:j] = toks[i:j] * 2
        else:
            # move a statement-ish chunk somewhere else
            j = min(len(toks), i + rng.range(1, 10))
            chunk = toks[i:j]
            del toks[i:j]
            p = rng.below(len(toks) + 1)
            toks[p:p] = chunk
    return "".join(toks)


def token_soup(rng, n=None):
    n = n or rng.range(1, 40)
    return "".join(rng.choice(SOUP) + (" " if rng.chance(1, 2) else "") for _ in range(n))


def stress_corpus():
    """Fixed items (name, bytes).  Input dimension only; no PRNG."""
    items = [
        ("empty", b""),
        ("only_ws", b" \n\t\x0c\n"),
        ("only_comment", b"# nothing here"),
        ("nul_bytes", b"cmd foo\x00bar;\n"),
        ("invalid_utf8", b"cmd \xff\xfe foo;\n"),
        ("invalid_utf8_in_descr", b"cmd foo \"\xc3\x28\";\n"),
        ("crlf", b"cmd foo\r\n  | bar;\r\n<X> = y;\r\n"),
        ("bom", b"\xef\xbb\xbfcmd foo;\n"),
        ("non_ascii", "cmd héllo \"日本語\" | wörld;\n".encode()),
        ("just_semicolons", b";;;;"),
        ("long_line", b"cmd " + b" | ".join(b"w%d" % i for i in range(3000)) + b";\n"),
        ("deep_parens_200", b"cmd " + b"(" * 200 + b"x" + b")" * 200 + b";\n"),
        ("deep_brackets_200", b"cmd " + b"[" * 200 + b"x" + b"]" * 200 + b";\n"),
        ("deep_parens_5000", b"cmd " + b"(" * 5000 + b"x" + b")" * 5000 + b";\n"),
        ("deep_brackets_5000", b"cmd " + b"[" * 5000 + b"x" + b"]" * 5000 + b";\n"),
        ("deep_unclosed_20000", b"cmd " + b"(" * 20000),
        ("many_dots", b"cmd x" + b"..." * 500 + b";\n"),
        ("nested_many1_12", b"cmd " + b"(" * 12 + b"x" + b")..." * 12 + b";\n"),
        ("nested_many1_32", b"cmd " + b"(" * 32 + b"x" + b")..." * 32 + b";\n"),
        ("deep_def_chain", b"cmd <N0>;\n" + b"".join(b"<N%d> = a%d <N%d>;\n" % (i, i, i + 1) for i in range(400)) + b"<N400> = z;\n"),
        ("descr_escaped_ws", b"cmd foo \"multi \\\n   line\";\n"),
        ("error_at_eof_no_newline", b"cmd foo (bar"),
        ("diag_path_crosses_subword", b"cmd --a=(x|y) (same \"1\" | same \"2\");\n"),
        ("span_ends_other_line", b"cmd <A>;\n<A> = {{{ echo\n  multi\n line }}};\n<A> = {{{ dup\n }}};\n"),
        ("undef_in_multiline", b"cmd foo\n    <UNDEF1>\n    bar\n    <UNDEF2>;\n"),
        ("tab_columns", b"cmd\tfoo\t<UNDEF>;\n\t<UNUSED>\t=\tx;\n"),
        ("span_end_column_before_start", b"cmd <fooooooooooooo\no>;"),
        ("wrapped_specialization_rhs", b"cmd <A>;\n<A@bash> = foo\n bar;\n<A@fish> = foo\n bar;\n<A@zsh> = foo\n bar;\n<A@pwsh> = foo\n bar;\n"),
        ("multiline_unused_def_name", b"cmd x;\n<UNUSED\nNAME> = y;\n"),
        ("warning_at_column_70000", b"cmd " + b"w " * 35000 + b"<UNDEFINED>;\n"),
        ("parse_error_at_column_70000", b"cmd " + b"w " * 35000 + b"(;\n"),
        ("warning_on_line_70000", b"#\n" * 70000 + b"cmd <UNDEFINED>;\n<UNUSED> = x;\n"),
        ("parse_error_on_line_70000", b"#\n" * 70000 + b"cmd (;\n"),
        ("commands_300", b"cmd " + b" | ".join(b"c%d {{{ echo %d }}}" % (i, i) for i in range(300)) + b";\n"),
        ("literals_300_descr", b"cmd " + b" | ".join(b"l%d \"d%d\"" % (i, i) for i in range(300)) + b";\n"),
        ("words_300", b"cmd " + b" | ".join(b"--o%d=(a | b%d)" % (i, i) for i in range(300)) + b";\n"),
        ("error_last_statement_no_terminator", b"cmd a;\n<X@tcsh> = {{{ x }}}"),
        ("error_inside_multiline_command_spec", b"cmd <S>;\n<S@bash> = foo {{{ multi\n  line\n }}} bar\n  baz;\n"),
        ("two_errors_at_once", b"cmd (a \"1\" | a \"2\") <D>;\n<D> = x;\n<D> = y;\n<E@nosuchshell> = {{{ z }}};\n"),
    ] + [
        # diagnostics on long lines full of multi-byte text, shown on a terminal (items named tty_* run with isatty(2) = 1):
        # any windowing / wrapping / colouring of the quoted source line must respect character boundaries
        ("tty_long_nonascii_line_%d" % off,
         ("cmd " + " ".join("w%d \"\u00e4\u00f6\u00fc\u65e5\u672c\u8a9e %d\"" % (i, i) for i in range(off)) + " <UNDEFINED%d> " % off +
          " ".join("v%d \"\u00df\u00e9\u4e2d\u6587 %d\"" % (i, i) for i in range(12)) + ";\n<UNUSED> = y \"x\";\n").encode("utf-8"))
        for off in (1, 3, 4, 5, 6, 7, 9, 12, 20)
    ] + [
        ("wide_chars_before_error", "cmd 日本語 \"説明\" <UNDEFINED>;\n<UNUSED> = ü;\n".encode()),
    ]
    return items


def shape_corpus():
    """Unusual but plausible grammar shapes (name, text); whether each is accepted is learnt from the reference run."""
    return [
        ("empty_command", "cmd {{{ }}} x;\n"),
        ("empty_command_in_word", "cmd --opt={{{ }}};\n"),
        ("command_only", "cmd {{{ echo a }}};\n"),
        ("two_commands_in_word", "cmd {{{ echo a }}}..{{{ echo b }}};\n"),
        ("command_then_literal_in_word", "cmd {{{ echo a }}}=value;\n"),
        ("ref_only_from_unused_def", "cmd x;\n<A> = <B> y;\n<B> = z;\n"),
        ("fallback_under_many1", "cmd (a || b)...;\n"),
        ("fallback_under_optional_many1", "cmd [a || b || c]... d;\n"),
        ("nested_fallbacks", "cmd ((a || b) | c || d) e;\n"),
        ("description_on_group_with_command", "cmd (a | {{{ echo b }}}) \"group descr\";\n"),
        ("description_on_subword_group", "cmd --x=(a | b) \"descr\" | --y=<Z> \"other\";\n<Z> = p | q;\n"),
        ("distributive_description_over_nonterm", "cmd <OPT> \"what\";\n<OPT> = -a | --all;\n"),
        ("same_literal_two_descr_other_states", "cmd a x \"one\" | b x \"two\";\n"),
        ("spec_only_no_plain", "cmd <U>;\n<U@bash> = {{{ a }}};\n<U@fish> = {{{ b }}};\n<U@zsh> = {{{ c }}};\n<U@pwsh> = {{{ d }}};\n"),
        ("spec_for_other_shell_only", "cmd <U>;\n<U@fish> = {{{ b }}};\n"),
        ("spec_and_plain_command", "cmd <U> --k=<U>;\n<U> = {{{ p }}};\n<U@zsh> = {{{ z }}};\n"),
        ("spec_inside_word_through_def", "cmd <W>;\n<W> = ssh:<H>;\n<H> = {{{ p }}};\n<H@bash> = {{{ b }}};\n"),
        ("cycle_through_spec", "cmd <A>;\n<A> = x <B>;\n<B@bash> = {{{ b }}};\n<B> = y [<A>];\n"),
        ("path_redefined", "cmd <PATH> <DIRECTORY>;\n<PATH> = a | b;\n"),
        ("path_in_word", "cmd --file=<PATH> --dir=<DIRECTORY>;\n"),
        ("underscore_everywhere", "cmd <_> [<_>]... --x=<_>;\n"),
        ("undefined_in_word_tail", "cmd --x=<UNDEF>;\n"),
        ("optional_only", "cmd [a] [b] [c];\n"),
        ("many1_of_optional", "cmd [a]... [b | c]...;\n"),
        ("long_alternation_of_words", "cmd --o=(" + " | ".join("v%d" % i for i in range(70)) + ");\n"),
        ("many_literals", "cmd " + " | ".join("lit%d" % i for i in range(130)) + ";\n"),
        ("three_same_shape_words", "cmd --a=(x | y) | --b=(x | y) | --c=(x | y) | --d=(p | q | r);\n"),
        ("same_word_twice", "cmd --a=(x | y) z | w --a=(x | y);\n"),
        ("literal_prefix_chain_in_word", "cmd --o=(a | ab | abc | abcd) next;\n"),
        ("dup_def_last_line_no_newline", "cmd <A>;\n<A> = x;\n<A> = y"),
        ("unknown_shell_empty", "cmd <A>;\n<A@> = {{{ x }}};\n"),
        ("unknown_shell_non_ascii", "cmd <A>;\n<A@b\xc3\xa4sh> = {{{ x }}};\n"),
        ("call_variant_only_name", "cmd;\n"),
        ("call_variant_name_with_dots", "a.b.c x;\n"),
        ("two_variants_same_first_literal", "cmd sub a;\ncmd sub b;\ncmd sub [c]...;\n"),
        ("escaped_specials", "cmd a\\|b \\(c\\) \\[d\\] \\<e\\> \\;f \\\"g \\{h\\} i\\\\j k\\.\\.\\.l;\n"),
        ("descr_with_specials", "cmd a \"$x `y` \\\\ \\\" ! * ? ~ # & ; | < > ( ) [ ] { }\";\n"),
        ("comment_inside_statement", "cmd a # comment\n   b # another ; with semicolon\n   | c;\n"),
        ("formfeed_and_tabs", "cmd\ta\x0c\tb;\n"),
        ("no_trailing_semicolon_many", "cmd a;\ncmd b;\n<X> = c"),
        ("definition_before_use_and_after", "<A> = x;\ncmd <A> <B>;\n<B> = y <A>;\n"),
        ("deep_definition_chain_in_word", "cmd --k=<A>;\n<A> = <B>;\n<B> = <C>;\n<C> = v1 | v2;\n"),
        ("optional_tail_in_word", "cmd --color[=(always | never)];\n"),
        ("many1_in_word", "cmd -s<P>:<S>[,<S>]...;\n<P> = TCP | UDP;\n<S> = [^](LISTEN | CLOSED);\n"),
        # `||` directly between words, one branch a word whose value is defined as a within-word expression itself
        ("fallback_at_word_level_nested_word", "cmd foo || --opt=<BAR>;\n<BAR> = x(y | z);\n"),
        ("fallback_at_word_level_nested_word_optional", "cmd [foo || --opt=<BAR>] tail;\n<BAR> = x{{{ echo c }}};\n"),
        ("fallback_at_word_level_nested_word_repeated", "cmd (foo || --opt=<BAR> || -k<BAR>)...;\n<BAR> = x<BAZ>;\n<BAZ> = (p | q)[,(p | q)]...;\n"),
        ("three_level_nested_words", "cmd --filter=<FILTER>;\n<FILTER> = <KEY>=<VALUE>;\n<KEY> = name | size;\n<VALUE> = (exact | glob):<PATTERN>;\n"),
        ("strace_expr", "strace -e <EXPR>;\n<EXPR> = [<qualifier>=][!]<value>[,<value>]...;\n<qualifier> = trace | read | write | fault;\n<value> = %file | file | all;\n"),
    ]


def repo_test_grammars(repo):
    """Grammar texts the repository's own tests use (raw strings in the parser/checker/regex/DFA unit tests, triple-quoted strings in
    e2e/*.py): the authors' corner cases are a workload too.  Non-grammars among them are harmless (rejected with a diagnostic)."""
    import glob
    import os
    out = []
    for name in ("parse.rs", "check.rs", "regex.rs", "dfa.rs", "tables.rs"):
        try:
            with open(os.path.join(repo, "src", name), encoding="utf-8", errors="replace") as f:
                src = f.read()
        except OSError:
            continue
        for m in re.finditer(r'r#"(.*?)"#', src, re.S):
            out.append(m.group(1))
        for m in re.finditer(r'(?:parse|get_validated_grammar|from_str|Grammar::parse)\(\s*"((?:[^"\\\\]|\\\\.)*)"', src):
            out.append(m.group(1).replace('\\"', '"').replace("\\\\", "\\"))
    for path in sorted(glob.glob(os.path.join(repo, "e2e", "*.py"))):
        try:
            with open(path, encoding="utf-8", errors="replace") as f:
                src = f.read()
        except OSError:
            continue
        for m in re.finditer(r'"""(.*?)"""', src, re.S):
            out.append(m.group(1))
        for m in re.finditer(r"\'\'\'(.*?)\'\'\'", src, re.S):
            out.append(m.group(1))
    seen = set()
    uniq = []
    for t in out:
        if t not in seen and len(t) < 20000:
            seen.add(t)
            uniq.append(t)
    return uniq
