//! History harness (DESIGN.md 2.2): executes a sequence of compile operations in ONE process, through the public
//! library API in the same order as /repo/src/main.rs:288-401, and writes each operation's three outputs
//! (script, --dfa dot, --regex dot) to files.  The driver compares them with fresh-process references.
//!
//! usage: histharness <ops-file> [--threads]
//! ops-file: one operation per line: `<grammar-file> <shell> <out-prefix>`
//! For every operation writes <out-prefix>.script, <out-prefix>.dfa, <out-prefix>.regex and <out-prefix>.status
//! (`ok` or `err: <Debug of the error>`).
//! With --threads every operation runs on its own thread, all started together (used under Miri only, where the
//! scheduler is seeded).

use complgen::check::ValidGrammar;
use complgen::dfa::DFA;
use complgen::parse::{Grammar, Shell};
use complgen::regex::{Regex, RegexInternPool};
use complgen::{bash, fish, pwsh, zsh};

fn compile(input: &str, shell: Shell) -> Result<(Vec<u8>, Vec<u8>, Vec<u8>), String> {
    let grammar = Grammar::parse(input).map_err(|e| format!("{e:?}"))?;
    let mut validated = ValidGrammar::from_grammar(grammar, shell).map_err(|e| format!("{e:?}"))?;
    let mut subword_regexes = RegexInternPool::default();
    let regex = Regex::from_valid_grammar(&validated, &mut subword_regexes).map_err(|e| format!("{e:?}"))?;
    validated.undefined_nonterminals.remove(&ustr::ustr("_"));
    let mut regex_dot: Vec<u8> = Vec::new();
    regex.to_dot(&mut regex_dot, &subword_regexes).map_err(|e| format!("{e:?}"))?;
    let dfa = DFA::from_regex_raw(regex, &subword_regexes).map_err(|e| format!("{e:?}"))?;
    let dfa = dfa.minimize();
    let array_start = match shell {
        Shell::Bash => bash::ARRAY_START,
        Shell::Fish => fish::ARRAY_START,
        Shell::Zsh => zsh::ARRAY_START,
        Shell::Pwsh => pwsh::ARRAY_START,
    };
    let mut dfa_dot: Vec<u8> = Vec::new();
    dfa.to_dot(&mut dfa_dot, array_start).map_err(|e| format!("{e:?}"))?;
    dfa.check_ambiguity_best_effort().map_err(|e| format!("{e:?}"))?;
    let mut script: Vec<u8> = Vec::new();
    match shell {
        Shell::Bash => bash::write_completion_script(&mut script, &validated.command, &dfa),
        Shell::Fish => fish::write_completion_script(&mut script, &validated.command, &dfa),
        Shell::Zsh => zsh::write_completion_script(&mut script, &validated.command, &dfa),
        Shell::Pwsh => pwsh::write_completion_script(&mut script, &validated.command, &dfa),
    }
    .map_err(|e| format!("{e:?}"))?;
    Ok((script, dfa_dot, regex_dot))
}

fn shell_of(s: &str) -> Shell {
    match s {
        "bash" => Shell::Bash,
        "fish" => Shell::Fish,
        "zsh" => Shell::Zsh,
        "pwsh" => Shell::Pwsh,
        other => panic!("unknown shell {other}"),
    }
}

fn run_op(grammar_path: &str, shell: &str, prefix: &str) {
    let input = std::fs::read_to_string(grammar_path).expect("grammar file");
    match compile(&input, shell_of(shell)) {
        Ok((script, dfa, regex)) => {
            std::fs::write(format!("{prefix}.script"), script).unwrap();
            std::fs::write(format!("{prefix}.dfa"), dfa).unwrap();
            std::fs::write(format!("{prefix}.regex"), regex).unwrap();
            std::fs::write(format!("{prefix}.status"), "ok").unwrap();
        }
        Err(e) => {
            std::fs::write(format!("{prefix}.status"), format!("err: {e}")).unwrap();
        }
    }
}

fn fnv64(data: &[u8]) -> u64 {
    let mut h: u64 = 0xcbf29ce484222325;
    for b in data {
        h ^= *b as u64;
        h = h.wrapping_mul(0x100000001b3);
    }
    h
}

/// The first line of every script is the signature with the build's `git describe` baked in by build.rs (which does not
/// re-run on new commits): two builds of the same sources may differ there, so digests leave it out.
fn body(script: &[u8]) -> &[u8] {
    match script.iter().position(|b| *b == b'\n') {
        Some(i) => &script[i + 1..],
        None => script,
    }
}

fn run_inline(idx: usize, shell: &str, text: &str) -> String {
    match compile(text, shell_of(shell)) {
        Ok((script, dfa, regex)) => format!(
            "op{idx} ok {:016x} {:016x} {:016x}",
            fnv64(body(&script)),
            fnv64(&dfa),
            fnv64(&regex)
        ),
        Err(e) => format!("op{idx} err {:016x}", fnv64(e.as_bytes())),
    }
}

/// `--inline [--threads] <shell> <grammar text> [<shell> <grammar text>]...`: no file access at all (Miri keeps
/// isolation on, so that its seed also decides the bytes getrandom delivers); prints one digest line per operation.
fn main_inline(args: &[String]) {
    let threads = args.iter().any(|a| a == "--threads");
    let rest: Vec<&String> = args.iter().filter(|a| !a.starts_with("--")).collect();
    let ops: Vec<(String, String)> = rest
        .chunks(2)
        .map(|c| (c[0].clone(), c[1].clone()))
        .collect();
    let lines: Vec<String> = if threads {
        let handles: Vec<_> = ops
            .into_iter()
            .enumerate()
            .map(|(i, (s, t))| std::thread::spawn(move || run_inline(i, &s, &t)))
            .collect();
        handles.into_iter().map(|h| h.join().unwrap()).collect()
    } else {
        ops.iter()
            .enumerate()
            .map(|(i, (s, t))| run_inline(i, s, t))
            .collect()
    };
    for l in lines {
        println!("{l}");
    }
}

fn main() {
    let args: Vec<String> = std::env::args().collect();
    if args.iter().any(|a| a == "--inline") {
        main_inline(&args[1..]);
        return;
    }
    let ops_text = std::fs::read_to_string(&args[1]).expect("ops file");
    let threads = args.iter().any(|a| a == "--threads");
    let ops: Vec<(String, String, String)> = ops_text
        .lines()
        .filter(|l| !l.trim().is_empty())
        .map(|l| {
            let mut it = l.split_whitespace();
            (
                it.next().unwrap().to_owned(),
                it.next().unwrap().to_owned(),
                it.next().unwrap().to_owned(),
            )
        })
        .collect();
    if threads {
        let handles: Vec<_> = ops
            .into_iter()
            .map(|(g, s, p)| std::thread::spawn(move || run_op(&g, &s, &p)))
            .collect();
        for h in handles {
            h.join().unwrap();
        }
    } else {
        for (g, s, p) in &ops {
            run_op(g, s, p);
        }
    }
}
